"""Registry of bounded stand-in checks (engine C).  Each check: a generator of JSON-able inputs and a
`run(inputs)` returning None (held) or a message (violated) when executed against the REAL code."""
from __future__ import annotations
import importlib, os, pkgutil, sys
from typing import Callable, Dict, Optional

CHECKS: Dict[str, "Check"] = {}


class Check:
    def __init__(self, id, prop, fn, gen, nontrivial=None, doc="", twins=False):
        self.id, self.prop, self.fn, self.nontrivial, self.doc = id, prop, fn, nontrivial, doc
        self.name = id
        self.twins = twins
        self.gen = (lambda rng, tier, _g=gen: with_twins(_g(rng, tier), rng, twins)) if twins else gen

    def run(self, inputs) -> Optional[str]:
        return self.fn(**inputs)


def bounded(prop, name, gen, nontrivial=None, twins=False):
    """twins=("mask", "values", ...): the inputs of this check are a 2-D boolean `mask` plus arrays of the mask's shape and shape-independent
    values; the case stream is then interleaved with *reshaped twins* (see with_twins)"""
    def deco(fn):
        cid = "%s:%s" % (prop, name)
        CHECKS[cid] = Check(cid, prop, fn, gen, nontrivial, fn.__doc__ or "", twins)
        return fn
    return deco


def with_twins(cases, rng, keys=("mask",), p=0.25):
    """History-sensitive streams.  Results must not depend on what was computed before (C11, and every property quantifies over
    single calls), so a memo / cached buffer keyed on too little must show up as a wrong answer for SOME sequence of calls.
    Random cases almost never collide on such keys; twins do: before a case with an H x W mask (H != W) the same case is
    evaluated with every H x W array reshaped to W x H -- same bytes, same unmasked count, same scales / origin, other shape.
    Each twin is an ordinary valid input, judged by the check's own oracle."""
    import numpy as np
    for c in cases:
        m = c.get("mask") if isinstance(c, dict) else None
        if isinstance(m, np.ndarray) and m.ndim == 2 and m.shape[0] != m.shape[1] and rng.random() < p:
            H, W = m.shape
            t = {}
            for k, v in c.items():
                if k in keys and isinstance(v, np.ndarray) and v.ndim >= 2 and v.shape[:2] == (H, W):
                    t[k] = np.ascontiguousarray(v.reshape((W, H) + v.shape[2:]))
                else:
                    t[k] = v
            yield t
        yield c


# checks whose inputs are "a 2-D mask + arrays of the mask's shape + shape-independent values": reshaped twins are valid inputs
TWIN_CHECKS = {      # check id -> the inputs that have the mask's shape (reshaped together with it)
    "C01:array2d-native-input": ("values",), "C01:array2d-forms-both-modes": ("values",), "C01:array2d-apply-mask": ("values",),
    "C01:grid2d-forms-both-modes": ("values",), "C01:vectoryx2d-forms-both-modes": ("values", "grid"), "C01:mask2d-derive-indexes": (),
    "C02:grid2d-pixel-centres": (),
    "C09:over-sampled-grid": (), "C09:binned-means": (), "C09:decorator-uniform": (), "C09:decorator-plain-method": (),
    "C09:iterate-stopping-rule": (),
    "C10:blurring-util-footprint-or-raise": (), "C10:blurring-derive-mask-and-grid": (), "C10:edge-set-util": (), "C10:border-set-util": (),
    "C10:edge-border-sets-masked-outer-ring": (), "C10:edge-border-views-agree": (),
    "C12:grid-from-mask-and-derived-grids": (), "C12:mask2d-zoom-mask-unmasked": (), "C12:array2d-zoomed-resized-padded-trimmed": (),
    "C13:dft-class-visibilities": ("image",), "C13:dft-class-image-from": ("image",), "C13:dft-class-mapping-matrix-signed": ("image",),
    "C13:dft-class-native-stored-image": ("image",),
    "C14:zoom-window-contains-unmasked": ("values",), "C14:array2d-resized-centred": ("values",), "C14:mask2d-resized-centred": (),
    "C16:fits-util-2d-roundtrip": ("values",), "C16:fits-array2d-file-roundtrip": ("values",), "C16:fits-array2d-hdu-roundtrip": ("values",),
    "C16:fits-mask2d-roundtrip": ("values",),
    "C08:fit-residual-flux-fraction-map": ("data", "noise_map", "model_data"), "C08:fit-signal-to-noise-map": ("data", "noise_map", "model_data"),
}

_loaded = False


def load_all():
    global _loaded
    if _loaded:
        return
    root = os.path.join(os.path.dirname(os.path.dirname(os.path.abspath(__file__))), "bounded")
    if os.path.dirname(root) not in sys.path:
        sys.path.insert(0, os.path.dirname(root))
    if os.path.isdir(root):
        import bounded as pkg  # noqa
        for m in sorted(pkgutil.iter_modules([root])):
            importlib.import_module("bounded." + m.name)
        for cid, keys in TWIN_CHECKS.items():
            c = CHECKS[cid]                      # KeyError: the table names a check that no longer exists
            if not c.twins:
                CHECKS[cid] = Check(c.id, c.prop, c.fn, c.gen, c.nontrivial, c.doc, ("mask",) + tuple(keys))
    _loaded = True


def for_property(pid):
    load_all()
    return [c for c in CHECKS.values() if c.prop == pid]


# ----------------------------------------------------------------------------------------------------------------------------
# derived-object twins: the same check, with the structures it builds obtained as DERIVED objects of a parent that was used first
# ----------------------------------------------------------------------------------------------------------------------------
# Every statement speaks about masks / kernels / meshes whatever way they were obtained.  A check that writes `aa.Mask2D(mask=m, ...)`
# only ever sees freshly constructed objects, whose caches are empty.  Under `derived_constructors()` the names `aa.Mask2D`,
# `aa.Kernel2D` and `aa.Mesh2DDelaunay` (constructor and classmethod constructors) hand back an object with the SAME contents obtained by
# a public derivation from a parent whose public properties were all read first:
#   Mask2D          parent = the mask padded by one masked row above and below (same pixel scales, same origin); derived = parent[1:H+1, :]
#   Kernel2D        parent = 2.0 * K;  derived = parent / 2.0                      (exact in binary floating point)
#   Mesh2DDelaunay  parent = mesh * (4.0, 1.0);  derived = parent / (4.0, 1.0)     (exact; an anisotropic re-scaling changes the triangulation)
# A derived object that still carries anything the parent computed (geometry, native form, triangulation, neighbours ...) answers for
# the parent, not for itself; the check's own oracle then fails.  Nothing is demanded beyond the statement: the derived object IS an
# ordinary mask / kernel / mesh with the stated contents (type and contents are verified here; otherwise the plain object is used).

def _warm(obj, depth=1):
    """read every public property once (fills every cache the object has)"""
    for name in dir(type(obj)):
        if name.startswith("_"):
            continue
        attr = getattr(type(obj), name, None)
        if not (isinstance(attr, property) or type(attr).__name__ in ("cached_property", "CachedProperty")):
            continue
        try:
            v = getattr(obj, name)
        except Exception:
            continue
        if depth > 0 and type(v).__module__.startswith("autoarray") and not hasattr(v, "_array"):
            _warm(v, depth - 1)


def _same_contents(a, b):
    import numpy as np
    x, y = np.asarray(getattr(a, "_array", a)), np.asarray(getattr(b, "_array", b))
    return type(a) is type(b) and x.shape == y.shape and x.dtype == y.dtype and x.tobytes() == y.tobytes()


def _derive_mask(real, m):
    import numpy as np
    arr = np.array(m._array)
    if arr.ndim != 2 or 0 in arr.shape:
        return None
    parent = real(mask=np.pad(arr, ((1, 1), (0, 0)), constant_values=True), pixel_scales=m.pixel_scales, origin=m.origin)
    _warm(parent)
    d = parent[1:arr.shape[0] + 1, :]
    return d if _same_contents(d, m) and d.pixel_scales == m.pixel_scales and d.origin == m.origin else None


def _derive_scaled(real, k):
    parent = k * 2.0
    _warm(parent)
    d = parent / 2.0
    return d if _same_contents(d, k) else None


def _derive_mesh(real, mesh):
    import numpy as np
    s = np.array([4.0, 1.0])
    parent = mesh * s
    _warm(parent)
    d = parent / s
    return d if _same_contents(d, mesh) else None


def _twin_class(real, derive):
    import inspect

    def through(obj):
        if type(obj) is not real:
            return obj
        try:
            d = derive(real, obj)
        except Exception:
            d = None
        return obj if d is None else d

    # NOT a subclass of `real` (a subclass would stay registered with the ABC machinery of the library's classes after the twin run and
    # make every later issubclass() recurse): a stand-in whose call / classmethod constructors go through `derive` and which answers
    # isinstance / issubclass like the real class
    class Meta(type):
        def __instancecheck__(cls, inst):
            return isinstance(inst, real)

        def __subclasscheck__(cls, sub):
            return sub is cls or (isinstance(sub, type) and issubclass(sub, real))

        def __call__(cls, *a, **k):
            return through(real(*a, **k))

        def __getattr__(cls, name):
            f = getattr(real, name)
            if inspect.ismethod(f) and f.__self__ is real:       # classmethod constructors (Mask2D.circular, Kernel2D.no_mask, ...)
                return lambda *a, **k: through(f(*a, **k))
            return f

    return Meta(real.__name__, (), {"__module__": real.__module__, "__qualname__": real.__qualname__, "__doc__": real.__doc__})


import contextlib


@contextlib.contextmanager
def derived_constructors():
    import sys
    import autoarray as aa
    saved = []
    try:
        for name, derive in (("Mask2D", _derive_mask), ("Kernel2D", _derive_scaled), ("Mesh2DDelaunay", _derive_mesh)):
            real = getattr(aa, name, None)
            if real is None:
                continue
            twin = _twin_class(real, derive)
            # the public name and every module-level binding of the class inside the library (`from ... import Mesh2DDelaunay`), so
            # that objects the library constructs on the user's behalf (a mesh inside mapper_grids_from) are derived objects too
            for modname, mod in list(sys.modules.items()):
                if mod is None or not (modname == "autoarray" or modname.startswith("autoarray.")):
                    continue
                if mod.__dict__.get(name) is real and modname != real.__module__:
                    saved.append((mod, name, real))
                    setattr(mod, name, twin)
        yield
    finally:
        for mod, name, real in saved:
            setattr(mod, name, real)


DERIVED_NOTE = ("with aa.Mask2D / aa.Kernel2D / aa.Mesh2DDelaunay objects obtained as derived objects (pad + slice, (2 K) / 2, "
                "(mesh * (4, 1)) / (4, 1)) of a parent whose public properties were read first: ")
