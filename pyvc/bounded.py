"""Registry of bounded stand-in checks (engine C).  Each check: a generator of JSON-able inputs and a
`run(inputs)` returning None (held) or a message (violated) when executed against the REAL code."""
from __future__ import annotations
import importlib, os, pkgutil, sys
from typing import Callable, Dict, Optional

CHECKS: Dict[str, "Check"] = {}


class Check:
    def __init__(self, id, prop, fn, gen, nontrivial=None, doc=""):
        self.id, self.prop, self.fn, self.gen, self.nontrivial, self.doc = id, prop, fn, gen, nontrivial, doc
        self.name = id

    def run(self, inputs) -> Optional[str]:
        return self.fn(**inputs)


def bounded(prop, name, gen, nontrivial=None):
    def deco(fn):
        cid = "%s:%s" % (prop, name)
        CHECKS[cid] = Check(cid, prop, fn, gen, nontrivial, fn.__doc__ or "")
        return fn
    return deco


_loaded = False


def load_all():
    global _loaded
    if _loaded:
        return
    root = os.path.join(os.path.dirname(os.path.dirname(os.path.abspath(__file__))), "bounded")
    if os.path.dirname(root) not in sys.path:
        sys.path.insert(0, os.path.dirname(root))
    if os.path.isdir(root):
        import bounded as pkg  # noqa
        for m in sorted(pkgutil.iter_modules([root])):
            importlib.import_module("bounded." + m.name)
    _loaded = True


def for_property(pid):
    load_all()
    return [c for c in CHECKS.values() if c.prop == pid]
