"""Input generators for engine C (small exhaustive domains first, then seeded random)."""
from __future__ import annotations
import itertools, random
import numpy as np


def all_masks(max_cells=9, shapes=None, min_unmasked=0):
    """every boolean mask of every shape with H*W <= max_cells"""
    if shapes is None:
        shapes = [(h, w) for h in range(1, max_cells + 1) for w in range(1, max_cells + 1) if h * w <= max_cells]
    for (h, w) in shapes:
        n = h * w
        for bits in range(2 ** n):
            m = np.array([(bits >> i) & 1 for i in range(n)], dtype=bool).reshape(h, w)
            if (~m).sum() >= min_unmasked:
                yield m


def random_mask(rng: random.Random, hmax=7, wmax=7, p=None, min_unmasked=0, hmin=1, wmin=1, ring=False):
    while True:
        h, w = rng.randint(hmin, hmax), rng.randint(wmin, wmax)
        q = p if p is not None else rng.choice([0.2, 0.5, 0.8])
        m = np.array([[rng.random() < q for _ in range(w)] for _ in range(h)], dtype=bool)
        if ring:
            m[0, :] = True; m[-1, :] = True; m[:, 0] = True; m[:, -1] = True
        if (~m).sum() >= min_unmasked:
            return m


def reals(rng: random.Random, shape, lo=-10.0, hi=10.0, special=True):
    a = np.empty(shape, dtype=float)
    flat = a.reshape(-1)
    for i in range(flat.size):
        r = rng.random()
        if special and r < 0.1:
            flat[i] = 0.0
        elif special and r < 0.15:
            flat[i] = rng.choice([1e-12, -1e-12, 1e8, -1e8])
        elif special and r < 0.35:
            # small dyadic values: rows / columns whose entries cancel EXACTLY do occur (sum-based shortcuts must not fire)
            flat[i] = rng.choice([1.0, -1.0, 2.0, -2.0, 0.5, -0.5, 0.25, -0.75])
        else:
            flat[i] = rng.uniform(lo, hi)
    return a


def cancelling(rng: random.Random, n):
    """n dyadic values, not all zero (n >= 2), whose sum is EXACTLY 0.0 in floating point in every summation order:
    the input on which a `sum(x) == 0` / `not x.any()`-style shortcut and the definition part ways"""
    a = np.zeros(n)
    for i in range(0, n - 1, 2):
        v = rng.choice([1.0, 2.0, 0.5, 4.0, 0.25, 3.0])
        a[i], a[i + 1] = v, -v
    idx = list(range(n))
    rng.shuffle(idx)
    return a[idx]


def np_rng(rng: random.Random):
    return np.random.default_rng(rng.randrange(2 ** 32))


def budget(tier, quick, thorough):
    return thorough if tier == "thorough" else quick
