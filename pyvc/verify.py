"""Driver for engine A: one contract -> obligations -> solver verdicts."""
from __future__ import annotations
import ast, time, traceback, os, subprocess, tempfile, hashlib
import z3

from . import source
from .contract import CONTRACTS, Contract, load_all
from .engine import (Engine, State, Ref, Arr, Exit, Obligation, OutsideSubset, ContractStale, parse_type, toz,
                     math_axioms, Maybe, Poison)

DEFAULT_TIMEOUT_MS = int(os.environ.get("VERIF_Z3_TIMEOUT_MS", "20000"))


def build(c: Contract) -> Engine:
    from . import names
    _mi, _fn = source.function(c.key)
    c, renamed = names.adapt(c, _fn)       # pure renaming of locals: use the invariants under the new names
    E = Engine(c)
    E.renamed_locals = renamed
    fn = E.fn
    st = State()
    params = [a.arg for a in fn.args.args]
    if fn.args.vararg or fn.args.kwarg or fn.args.kwonlyargs:
        raise OutsideSubset("*args/**kwargs in " + c.key)
    declared = list(c.types.keys())
    if c.cls and params and params[0] == "self":
        params = params[1:]
    if sorted(p for p in params) != sorted(d for d in declared if not d.startswith("self.")):
        raise ContractStale("parameter list of %s is %s, contract declares %s" % (c.key, params, declared))
    selfrec = {}
    for p in declared:
        v = E.fresh_of_type(parse_type(c.types[p]), p.replace("self.", "self_"), st)
        if p.startswith("self."):
            selfrec[p[5:]] = v
        else:
            st.env[p] = v
    if selfrec or c.cls:
        st.env["self"] = selfrec
    E.param_names = [p for p in declared]
    E.spec_mode += 1
    try:
        for k, e in c.let.items():
            st.env[k] = E.ev(ast.parse(e, mode="eval").body, st)
        for r in c.requires:
            st.pc.append(toz(E.truth(E.ev(ast.parse(r, mode="eval").body, st))))
    finally:
        E.spec_mode -= 1
    E.entry = State(dict(st.env), dict(st.heap), list(st.pc))
    E.canaries.append(("canary:entry", list(st.pc)))
    ends = exec_with_ghosts(E, source.body_without_docstring(fn), st, getattr(c, "ghost_at", None) or {})
    for e in ends:
        E.exits.append(Exit("return", e, None, line=fn.end_lineno))
    finish(E)
    return E


def exec_with_ghosts(E, body, st, hooks):
    """contract.ghost_at = {i: [item, ...]}: before top-level body statement i (len(body) = end) each item is proved and
    then assumed.  An item is a DSL string (ghost assert) or a dict {induct, lo, hi, stmt} (ghost lemma by induction:
    obligations base and step; then `forall n in [lo, hi]: stmt` is assumed)."""
    if not hooks:
        return E.exec_block(body, st)
    states = [st]
    for i in range(len(body) + 1):
        for j, item in enumerate(hooks.get(i, [])):
            for stx in states:
                tag = "ghost@%d#%d" % (i, j)
                if isinstance(item, str):
                    g = toz(E.truth(E.evs(item, stx)))
                    E.obl.append(Obligation("assert:" + tag, list(stx.pc), g, E.cur_line, "assert"))
                    stx.pc.append(g)
                    continue
                if "rebind" in item:
                    # {"rebind": {"y": "expr"}}: prove local y == expr, then continue with the (simpler) term expr for y
                    for nm, ex in item["rebind"].items():
                        val = E.evs(ex, stx)
                        g = toz(E.compare(ast.Eq(), stx.env[nm], val))
                        E.obl.append(Obligation("assert:%s/rebind:%s" % (tag, nm), list(stx.pc), g, E.cur_line, "assert"))
                        stx.env[nm] = val
                    continue
                n = E.fresh(item["induct"], z3.IntSort())
                lo = toz(E.evs(str(item.get("lo", 0)), stx))
                hi = toz(E.evs(str(item["hi"]), stx))
                P = lambda at: toz(E.truth(E.evs(item["stmt"], stx, {item["induct"]: at})))
                E.obl.append(Obligation("lemma:%s/base" % tag, list(stx.pc), P(lo), E.cur_line, "lemma"))
                E.obl.append(Obligation("lemma:%s/step" % tag, list(stx.pc) + [n >= lo, n < hi, P(n)], P(n + 1), E.cur_line, "lemma"))
                wrapped = "forall(%s, (%s) + 1, lambda %s: %s)" % (item.get("lo", 0), item["hi"], item["induct"], item["stmt"])
                stx.pc.append(toz(E.truth(E.evs(wrapped, stx))))
        if i < len(body):
            states = E.exec_block([body[i]], states)
            if not states:
                break
    return states


def build_corollary(cor) -> Engine:
    """engine state for a corollary: no code is executed, only contracts are applied"""
    from .calls import apply_contract
    from .contract import Contract
    dummy = Contract(key=cor.calls[0][1], props=cor.props, types={})
    E = Engine.__new__(Engine)
    _init_no_source(E, dummy)
    st = State()
    for v, t in cor.vars.items():
        st.env[v] = E.fresh_of_type(parse_type(t), v, st)
    E.param_names = list(cor.vars)
    E.spec_mode += 1
    try:
        for k, e in cor.let.items():
            st.env[k] = E.ev(ast.parse(e, mode="eval").body, st)
        for r in cor.requires:
            st.pc.append(toz(E.truth(E.ev(ast.parse(r, mode="eval").body, st))))
    finally:
        E.spec_mode -= 1
    E.entry = State(dict(st.env), dict(st.heap), list(st.pc))
    E.canaries.append(("canary:entry", list(st.pc)))
    for (res, key, argmap) in cor.calls:
        c = CONTRACTS[key]
        bound = {p: E.evs(e, st) for p, e in argmap.items()}
        E.cur_line = "cor:" + res
        st.env[res] = apply_contract(E, c, bound, st, "%s(%s)" % (c.qualname, res))
    E.canaries.append(("canary:end", list(st.pc)))
    for i, e in enumerate(cor.ensures):
        g = toz(E.truth(E.evs(e, st)))
        E.obl.append(Obligation("corollary:%s#%d" % (cor.name, i), list(st.pc), g, None, "corollary"))
    return E


def _init_no_source(E, c):
    import itertools
    E.c = c
    E.mi, E.fn = source.function(c.key)
    E.obl, E.exits = [], []
    E.ids, E.fresh_n = itertools.count(1), itertools.count(1)
    E.spec_inst, E.global_axioms, E.lemma_obls = {}, [], []
    E.loops, E.loop_stack = [], []
    E.spec_mode, E.heap_override, E.bound_vars = 0, [], []
    E.entry, E.trusted_used, E.callees = None, [], []
    E.math_used, E.warnings, E.cur_line = set(), [], None
    E.sum_inst, E.inline_depth, E.canaries, E.param_names = {}, 0, [], []


def param_value(E, p):
    if p.startswith("self."):
        return E.entry.env["self"][p[5:]]
    return E.entry.env[p]


def finish(E: Engine):
    c = E.c
    entry = E.entry
    if not E.exits:
        raise OutsideSubset("function has no exit")
    entry_ids = {}
    for p in E.param_names:
        v = param_value(E, p)
        if isinstance(v, Ref):
            entry_ids[v.id] = p
    for xi, x in enumerate(E.exits):
        tag = "" if len(E.exits) == 1 else "/exit%d@%s" % (xi, x.line)
        E.cur_line = x.line
        if x.kind == "raise":
            cond = c.raises.get(x.exc)
            if cond is None:
                E.obl.append(Obligation("raise-unexpected:%s%s" % (x.exc, tag), list(x.st.pc), z3.BoolVal(False), x.line, "raises"))
            else:
                g = toz(E.truth(E.evs(cond, State(dict(entry.env), entry.heap, []))))
                E.obl.append(Obligation("raise-only-if:%s%s" % (x.exc, tag), list(x.st.pc), g, x.line, "raises"))
            continue
        # normal return
        for exn, cond in c.raises.items():
            g = toz(E.truth(E.evs(cond, State(dict(entry.env), entry.heap, []))))
            E.obl.append(Obligation("must-raise:%s%s" % (exn, tag), list(x.st.pc), z3.Not(g), x.line, "raises"))
        res = x.value
        if getattr(c, "ctor_result", None):
            res = entry.env[c.ctor_result]          # tuple-modelled object: the constructed object is this parameter
        if c.result_alias:
            want = param_value(E, c.result_alias)
            ok = isinstance(res, Ref) and isinstance(want, Ref) and res.id == want.id
            E.obl.append(Obligation("alias:result%s" % tag, list(x.st.pc), z3.BoolVal(ok), x.line, "frame"))
        elif isinstance(res, Ref) and res.id in entry_ids:
            E.obl.append(Obligation("fresh:result%s" % tag, list(x.st.pc), z3.BoolVal(False), x.line, "frame"))
        scope = State(dict(entry.env), x.st.heap, x.st.pc)
        scope.env["result"] = res
        for i, e in enumerate(c.ensures):
            try:
                g = toz(E.truth(E.evs(e, scope)))
            except OutsideSubset as ex:
                # the value returned on this path does not have the shape the contract speaks about (None, or another rank):
                # the path must be infeasible under the precondition
                E.obl.append(Obligation("returns-value%s" % tag, list(x.st.pc), z3.BoolVal(False), x.line, "post",
                                        extra={"why": "ensures %r: %s" % (e, ex)}))
                break
            E.obl.append(Obligation("post:%d%s" % (i, tag), list(x.st.pc), g, x.line, "post"))
        for hid, p in entry_ids.items():
            if p in c.modifies:
                continue
            a0, a1 = entry.heap[hid], x.st.heap[hid]
            g = z3.BoolVal(True) if a0.data.eq(a1.data) else (a0.data == a1.data)
            E.obl.append(Obligation("frame:%s%s" % (p, tag), list(x.st.pc), g, x.line, "frame"))


# --------------------------------------------------------------------------- solving

def all_axioms(E: Engine, proven_lemmas, internal_for=None):
    """axioms + proven lemmas.  Helper lemmas (export=False) are visible only while proving later lemmas of
    the same spec function (`internal_for`)."""
    ax = []
    for inst in E.spec_inst.values():
        ax.extend(inst["axioms"])
        for lm in inst["lemmas"]:
            if lm["name"] in proven_lemmas and (lm.get("export", True) or lm.get("spec") == internal_for):
                ax.append(lm["stmt"])
    for key, (f, a) in E.sum_inst.items():
        if key not in E.spec_inst:
            ax.extend(a)
    from .engine import trunc_axioms
    ax.extend(trunc_axioms())          # filtered per obligation in check(): only kept when `trunc` occurs
    ma = math_axioms()
    for m in sorted(set(getattr(E.c, "uses_math", []) or [])):      # opt-in: sqrt(a)>=0, sqrt(a)^2=a, exp>0
        ax.extend(ma.get(m, []))
    return ax


def _syms(t, acc=None):
    """uninterpreted constants / functions occurring in a term"""
    acc = set() if acc is None else acc
    seen = set()
    stack = [t]
    while stack:
        u = stack.pop()
        i = u.get_id()
        if i in seen:
            continue
        seen.add(i)
        if z3.is_quantifier(u):
            stack.append(u.body())
            continue
        if z3.is_app(u):
            d = u.decl()
            if d.kind() == z3.Z3_OP_UNINTERPRETED:
                acc.add(d.name())
            stack.extend(u.children())
    return acc


def _has_quant(t):
    seen = set()
    stack = [t]
    while stack:
        u = stack.pop()
        i = u.get_id()
        if i in seen:
            continue
        seen.add(i)
        if z3.is_quantifier(u):
            return True
        stack.extend(u.children())
    return False


def _solve(hyps, goal, timeout_ms, ematch_only=False, seed=0, solve_eqs=False):
    s = z3.Solver()
    s.set("timeout", timeout_ms)
    if seed:
        s.set("smt.random_seed", seed)
    if ematch_only:
        if os.environ.get("VERIF_AC", "1") == "0":
            s.set("auto_config", False)
        s.set("smt.mbqi", False)
        # keep hypothesis equations such as `idx == off + k` as they are: solving them for the loop counter rewrites
        # `k + 1` and the goal-directed triggers S(.., k+1) stop matching (measured by the C04 contract work)
        if not solve_eqs and os.environ.get("VERIF_SOLVE_EQS", "0") == "0":
            s.set("smt.solve_eqs", False)
    for h in hyps:
        s.add(h)
    s.add(z3.Not(goal))
    return s, s.check()


def check(hyps, goal, timeout_ms, want_model=False, axioms=()):
    """portfolio: (1) everything, short budget; (2) quantified hypotheses restricted to those sharing a symbol
    with the goal (dropping hypotheses is sound); (3) everything, full budget.  `sat` is only reported from a
    run that had every hypothesis."""
    t0 = time.time()
    axioms = list(axioms)
    from .engine import trunc_axioms
    tids = {a.get_id() for a in trunc_axioms()}
    used = set()
    for h in list(hyps) + [goal] + [a for a in axioms if a.get_id() not in tids]:
        _syms(h, used)
    if "trunc" not in used:
        axioms = [a for a in axioms if a.get_id() not in tids]
    full = axioms + list(hyps)
    short = max(1000, min(4000, timeout_ms // 4))
    s, r = _solve(full, goal, short, ematch_only=True)
    how = "ematch"
    if r == z3.unknown:
        # same attempt with z3's equation solving left on (helps some contracts, hurts others)
        try:
            s2, r2 = _solve(full, goal, max(1000, short // 2), ematch_only=True, solve_eqs=True)
            if r2 == z3.unsat:
                s, r, how = s2, r2, "ematch-solve-eqs"
        except TypeError:
            pass
    if r == z3.unknown:
        # e-matching is sensitive to term order: two more seeds before falling back to MBQI
        for sd in (7, 23):
            try:
                s2, r2 = _solve(full, goal, max(1000, short // 2), ematch_only=True, seed=sd)
            except TypeError:       # an extension wrapped _solve with the old signature
                break
            if r2 == z3.unsat:
                s, r, how = s2, r2, "ematch-seed%d" % sd
                break
    if r != z3.unsat:
        s, r = _solve(full, goal, short)
        how = "all"
    if r == z3.unknown:
        gs = _syms(goal)
        qf = [h for h in hyps if not _has_quant(h)]
        for h in qf:
            if _syms(h) & gs:
                gs |= _syms(h)
        keep = [h for h in hyps if (not _has_quant(h)) or (_syms(h) & gs)]
        if len(keep) < len(hyps):
            s2, r2 = _solve(axioms + keep, goal, short)
            if r2 == z3.unsat:
                s, r, how = s2, r2, "relevant-hyps"
        if r == z3.unknown:
            qf_only = [h for h in hyps if not _has_quant(h)]
            s2, r2 = _solve(axioms + qf_only, goal, short)
            if r2 == z3.unsat:
                s, r, how = s2, r2, "qf-hyps"
        if r == z3.unknown:
            s, r = _solve(full, goal, timeout_ms)
            how = "all-long"
    ms = int((time.time() - t0) * 1000)
    model = None
    if r == z3.sat and want_model:
        model = s.model()
    check.last_how = how
    return str(r), ms, s, model


def cvc5_check(smt2: str, timeout_s=20):
    with tempfile.NamedTemporaryFile("w", suffix=".smt2", delete=False, dir="/var/tmp") as f:
        f.write("(set-logic ALL)\n" + smt2 + "\n")
        path = f.name
    try:
        out = subprocess.run(["/usr/bin/cvc5", "--enum-inst", "--tlimit=%d" % (timeout_s * 1000), path],
                             capture_output=True, text=True, timeout=timeout_s + 5)
        txt = out.stdout.strip().splitlines()
        return txt[0] if txt else "error:" + out.stderr[:200]
    except subprocess.TimeoutExpired:
        return "timeout"
    finally:
        os.unlink(path)


def verify(key: str, second_opinion=False, timeout_ms=None, only_kinds=None):
    """returns a plain dict (picklable).  only_kinds: restrict to obligations of these kinds (e.g. {"frame"} for the
    purity reading of C11: lemmas and canaries are skipped as well)"""
    load_all()
    from .contract import COROLLARIES
    is_cor = key in COROLLARIES
    c = COROLLARIES[key] if is_cor else CONTRACTS[key]
    t0 = time.time()
    out = {"key": key, "props": c.props, "status": "ok", "obligations": [], "trusted": getattr(c, "trusted", False),
           "callees": [], "trusted_callees": [], "error": None, "lemmas": [], "sha": None, "path": None}
    if getattr(c, "trusted", False):
        out["status"] = "trusted"
        return out
    try:
        E = build_corollary(c) if is_cor else build(c)
    except ContractStale as e:
        out["status"] = "stale"; out["error"] = str(e); return out
    except OutsideSubset as e:
        out["status"] = "outside-subset"; out["error"] = str(e); return out
    except source.SourceError as e:
        out["status"] = "stale"; out["error"] = str(e); return out
    except Exception as e:
        out["status"] = "checker-error"; out["error"] = traceback.format_exc(); return out
    out["sha"], out["path"] = E.mi.sha, E.mi.path
    out["callees"] = sorted(set(E.callees))
    out["trusted_callees"] = sorted(set(E.trusted_used))
    out["build_s"] = round(time.time() - t0, 3)
    tmo = timeout_ms or getattr(c, "timeout_ms", None) or DEFAULT_TIMEOUT_MS
    try:
        # lemmas first (in declaration order; a lemma may use the ones before it)
        proven = set()
        if only_kinds:
            E.obl = [o for o in E.obl if o.kind in only_kinds or o.name.split(":")[0] in only_kinds]
            E.canaries = []
            # frame / freshness facts are about array identity and do not need the spec lemmas
            for inst in E.spec_inst.values():
                inst["lemmas"] = []
        for inst in E.spec_inst.values():
            for lm in inst["lemmas"]:
                base_ax = all_axioms(E, proven, internal_for=lm.get('spec'))
                hints = [h == h for h in map(toz, lm["hints"])]
                rec = {"name": "lemma:" + lm["name"], "parts": []}
                ok = True
                for part, hy, goal in lm["parts"]:
                    r, ms, s, _ = check(hints + hy, goal, tmo, axioms=base_ax)
                    o = {"name": "lemma:%s/%s" % (lm["name"], part), "result": r, "ms": ms, "kind": "lemma", "line": None, "how": check.last_how}
                    if second_opinion:
                        o["cvc5"] = cvc5_check(s.to_smt2())
                    out["obligations"].append(o)
                    ok = ok and r == "unsat"
                if ok:
                    proven.add(lm["name"])
        ax = all_axioms(E, proven)
        budget = tmo
        for ob in E.obl:
            r, ms, s, model = check(ob.hyps, ob.goal, budget, want_model=True, axioms=ax)
            if r == "unknown":
                budget = min(budget, 4000)      # one undecided obligation: do not spend the full portfolio on every sibling
            o = {"name": ob.name, "result": r, "ms": ms, "kind": ob.kind, "line": ob.line, "how": check.last_how}
            if r == "sat" and model is not None:
                o["model"] = model_summary(E, model)
            if r != "unsat":
                o["goal"] = str(z3.simplify(ob.goal))[:600]
            if second_opinion:
                o["cvc5"] = cvc5_check(s.to_smt2())
            out["obligations"].append(o)
        # vacuity canaries: `False` must NOT be derivable
        for name, hyps in E.canaries:
            s, r = _solve(ax + hyps, z3.BoolVal(False), 400); r = str(r); ms = 0
            out["obligations"].append({"name": name, "result": "reachable" if r != "unsat" else "VACUOUS",
                                       "ms": ms, "kind": "canary", "line": None})
    except Exception:
        out["status"] = "checker-error"; out["error"] = traceback.format_exc()
    out["wall_s"] = round(time.time() - t0, 3)
    return out


def model_summary(E: Engine, model):
    """concrete entry values of the parameters in a counter-model (scalars, tuples, small arrays)"""
    out = {}

    def val(t):
        v = model.eval(toz(t), model_completion=True)
        if z3.is_int_value(v):
            return v.as_long()
        if z3.is_rational_value(v):
            return float(v.numerator_as_long()) / float(v.denominator_as_long())
        if z3.is_true(v):
            return True
        if z3.is_false(v):
            return False
        if z3.is_algebraic_value(v):
            return float(v.approx(20).as_fraction())
        return str(v)

    def conv(v):
        if isinstance(v, tuple):
            return [conv(x) for x in v]
        if isinstance(v, Ref):
            a = E.entry.heap[v.id]
            shape = [val(s) for s in a.shape]
            if any((not isinstance(s, int)) or s > 8 or s < 0 for s in shape):
                return {"shape": shape, "data": "too large"}
            import itertools as it
            data = {}
            for idx in it.product(*[range(s) for s in shape]):
                data[",".join(map(str, idx))] = val(E.select(a, [z3.IntVal(i) for i in idx]))
            return {"shape": shape, "elem": a.elem, "data": data}
        if v is None or isinstance(v, (bool, int)):
            return v
        if isinstance(v, dict):
            return {k: conv(x) for k, x in v.items()}
        try:
            return val(v)
        except Exception:
            return str(v)
    for p in E.param_names:
        try:
            out[p] = conv(param_value(E, p))
        except Exception as e:
            out[p] = "?" + str(e)
    return out
