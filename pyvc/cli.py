"""vf -- entry point:  vf check <Cxx> [--tier quick|thorough]   |  vf replay <file>  |  vf explain <Cxx>
                      |  vf selftest  |  vf list"""
from __future__ import annotations
import collections
import argparse, json, os, random, sys, time, traceback, hashlib
import multiprocessing as mp

ROOT = os.path.dirname(os.path.dirname(os.path.abspath(__file__)))
sys.path.insert(0, ROOT)

from pyvc.contract import CONTRACTS, SPECS, load_all, for_property  # noqa
from pyvc import source  # noqa

EXIT_OK, EXIT_VIOLATION, EXIT_UNDECIDED, EXIT_ERROR = 0, 1, 2, 3

ASSUMPTIONS = {
    "R1": "R1 float64 arithmetic is treated as exact real arithmetic (no NaN/inf, no rounding)",
    "R2": "R2 Python/numpy integers are mathematical integers (no int64 overflow; float-held indices exact below 2^53)",
    "R3": "R3 strict indexing: a computed negative index is an error (CPython would wrap around)",
    "R4": "R4 int() truncates toward zero, // floors, % takes the divisor's sign, x**2.0 == x*x",
    "R5": "R5 np.zeros/ones/full/np.array/x.copy()/astype return fresh arrays; a[i] of a 2-D array is read as a snapshot",
    "R6": "R6 distinct array parameters do not alias",
    "R7": "R7 numba is absent: @numba_util.jit() kernels run as plain CPython (checked: numba not importable)",
    "T": "partial correctness only: termination of while-loops is not proved",
}


DTYPE_TWIN_P = 0.3
LAYOUT_TWIN_P = 0.15
DERIVED_TWIN_P = 0.2


def _layout_twin(kwargs, kind="F"):
    """kind F: every 2-D+ array in Fortran order; kind BE: every float / int array in big-endian byte order (what astropy hands
    over for FITS data) -- same values, another memory representation"""
    import numpy as np
    tw, changed = {}, False
    for k, v in kwargs.items():
        if kind == "F" and isinstance(v, np.ndarray) and v.ndim >= 2 and min(v.shape[:2]) > 1 and not v.flags.f_contiguous:
            tw[k] = np.asfortranarray(v)
            changed = True
        elif kind == "BE" and isinstance(v, np.ndarray) and v.dtype.kind in "fi" and v.dtype.itemsize > 1 and v.size:
            tw[k] = v.astype(v.dtype.newbyteorder(">"))
            changed = True
        else:
            tw[k] = v.copy() if isinstance(v, np.ndarray) else v
    return tw if changed else None

INT_TWIN_PROPS = {"C01", "C02", "C09", "C10", "C12", "C14", "C18", "C19"}


def _int_twin(c, kwargs, rng=None):
    """the same call with every float array of a parameter declared real[...] replaced by its rounding, as int64; with `rng`
    also *scalar-type twins*: each scalar / tuple parameter declared real is, with probability 1/2 and independently, rounded and
    handed over as a Python int (or numpy int64) -- `centre=(0, 0)` instead of `(0.0, 0.0)` --, and each non-negative scalar /
    tuple parameter declared int is handed over as a numpy UNSIGNED scalar (a row of an unsigned index array); same values,
    another type, so every clause must hold unchanged"""
    import numpy as np
    # only where the arrays are data a user hands in (images, grids, coordinates: C01/C02/C09/C10/C12/C14/C18/C19), never
    # for intermediates that are float by construction (Cholesky factors, curvature matrices) nor for in-place output buffers
    if not (set(c.props) & INT_TWIN_PROPS) or getattr(c, "no_int_twin", False):
        return None
    tw, changed = {}, False
    # one kind of twin per call (several at once mostly produce inputs outside the precondition): integer arrays only /
    # Python or numpy ints for real scalars (never turning a non-zero scale into 0) / unsigned numpy scalars for int scalars
    tys = [str(t).replace(" ", "") for k, t in (c.types or {}).items() if k not in (c.modifies or [])]
    kinds = ([k for k, ok in (("arrays", any(t.startswith("real[") for t in tys)),
                              ("real-scalars", any(t == "real" or (t.startswith("(") and "real" in t) for t in tys)),
                              ("unsigned", bool(getattr(c, "unsigned_twin", ())))) if ok] or ["arrays"])
    kind = None if rng is None else rng.choice(kinds)

    def scal(v, ty, k=None):
        if kind == "real-scalars" and ty == "real" and isinstance(v, float) and v == v and abs(v) < 1e15 and (round(v) != 0 or v == 0) \
                and rng.random() < 0.6:
            return (int(round(v)) if rng.random() < 0.7 else np.int64(round(v))), True
        # unsigned scalars only for the index-valued DATA parameters a contract names in `unsigned_twin` (pixel coordinates, region
        # bounds: rows of an unsigned index array); configuration integers (shapes, buffers, sub-sizes) stay Python ints
        if kind == "unsigned" and k in getattr(c, "unsigned_twin", ()) and ty == "int" and isinstance(v, (int, np.integer)) and not isinstance(v, (bool, np.bool_)) and 0 <= int(v) and rng.random() < 0.6:
            fits = [t for t in (np.uint8, np.uint16, np.uint32, np.uint64) if int(v) <= np.iinfo(t).max]
            return rng.choice(fits)(int(v)), True
        return v, False

    for k, v in kwargs.items():
        ty = str((c.types or {}).get(k, "")).replace(" ", "")
        if k in (c.modifies or []) or k in getattr(c, "no_int_twin_params", ()):
            tw[k] = v.copy() if isinstance(v, np.ndarray) else v
            continue
        if isinstance(v, np.ndarray) and v.dtype.kind == "f" and ty.startswith("real[") and v.size and np.all(np.isfinite(v)) \
                and float(np.abs(v).max()) < 1e15 and kind in (None, "arrays"):
            tw[k] = np.rint(v).astype(np.int64)
            changed = True
        elif rng is not None and ty in ("real", "int"):
            tw[k], ch = scal(v, ty, k)
            changed = changed or ch
        elif rng is not None and ty.startswith("(") and isinstance(v, tuple) and len(v) == len([t for t in ty.strip("()").split(",") if t]):
            parts = [scal(x, t, k) for x, t in zip(v, [t for t in ty.strip("()").split(",") if t])]
            tw[k] = tuple(x for x, _ in parts)
            changed = changed or any(ch for _, ch in parts)
        else:
            tw[k] = v.copy() if isinstance(v, np.ndarray) else v
    return tw if changed else None


HISTORY = 16      # preceding inputs of the same check kept with a failure (history-dependent violations)


def _task(t):
    kind, arg, tier, seed, opts = t
    try:
        if kind == "A":
            from pyvc.verify import verify
            return ("A", arg, verify(arg, second_opinion=opts.get("cvc5", False), timeout_ms=opts.get("timeout_ms")))
        if kind == "F":
            from pyvc.verify import verify
            return ("F", arg, verify(arg, timeout_ms=opts.get("timeout_ms"), only_kinds={"frame"}))
        if kind == "C":
            return ("C", arg, run_contract_search(arg, tier, seed))
        if kind == "B":
            return ("B", arg, run_bounded(arg, tier, seed))
    except Exception:
        return (kind, arg, {"status": "checker-error", "error": traceback.format_exc()})


def run_contract_search(key, tier, seed):
    """engine C: bounded search on the real function under its run-time contract"""
    from pyvc import rtc
    load_all()
    c = CONTRACTS[key]
    rng = random.Random(("%s|%s" % (seed, key)))
    out = {"key": key, "evaluations": 0, "accepted": 0, "nontrivial": 0, "failures": [], "status": "ok", "samples": []}
    gen = c.gen
    if tier == "large":
        gen = getattr(c, "gen_large", None)
    if gen is None:
        out["status"] = "no-generator"
        return out
    # the library import (several seconds, more under load) is not part of the search budget: without this a loaded machine
    # spent the whole quick budget of a contract on its first evaluation
    try:
        rtc.import_repo()
        rtc.real_function(c.key)
    except Exception:
        pass
    t0 = time.time()
    limit_s = {"quick": 6.0, "large": 150.0}.get(tier, 60.0)
    seen = set()
    hist = collections.deque(maxlen=HISTORY)
    for kwargs in gen(rng, tier):
        out["evaluations"] += 1
        o = rtc.run_contract(c, kwargs)
        if o.status == "pre-false":
            continue
        out["accepted"] += 1
        h = hashlib.sha1(json.dumps(rtc.to_jsonable(kwargs), sort_keys=True, default=str).encode()).hexdigest()
        if h not in seen:
            seen.add(h)
            if c.nontrivial is None or c.nontrivial(**kwargs):
                out["nontrivial"] += 1
        if len(out["samples"]) < 2:
            out["samples"].append(rtc.to_jsonable(kwargs))
        if o.status == "fail":
            out["failures"].append({"inputs": rtc.to_jsonable(kwargs), "clause": o.clause, "detail": o.detail,
                                    "observed": o.observed, "history": list(hist)})
            if len(out["failures"]) >= 5:
                break
        elif rng.random() < DTYPE_TWIN_P:
            # integer-dtype twin: a contract over the reals holds in particular for integer-valued input, whatever its dtype
            # (an accumulator or output buffer that inherits the input dtype truncates silently).  Only a false clause counts;
            # a function that refuses integer arrays with an exception is outside its own domain, not wrong.
            tw = _int_twin(c, kwargs, rng)
            if tw is not None:
                o2 = rtc.run_contract(c, tw)
                out["int_twins"] = out.get("int_twins", 0) + (o2.status != "pre-false")
                if o2.status == "fail" and (o2.detail in ("clause is false", "returned instead of raising", "raised although the condition is false")
                                            or str(o2.clause).startswith(("frame:", "fresh:"))):
                    out["failures"].append({"inputs": rtc.to_jsonable(tw), "clause": o2.clause, "detail": "integer-dtype / scalar-type twin: " + str(o2.detail),
                                            "observed": o2.observed, "history": []})
                    if len(out["failures"]) >= 5:
                        break
        if o.status == "ok" and rng.random() < LAYOUT_TWIN_P:
            # memory-layout twin: the same values in Fortran (column-major) order -- what `m.T`, np.rot90 or np.asfortranarray hand
            # over.  Nothing in any statement depends on the layout, so every clause must hold unchanged.
            kind = "F" if rng.random() < 0.6 else "BE"
            tw = _layout_twin(kwargs, kind)
            if tw is not None:
                o3 = rtc.run_contract(c, tw)
                out["layout_twins"] = out.get("layout_twins", 0) + 1
                if o3.status == "fail" and not (kind == "BE" and str(o3.clause) == "no-exception"):
                    out["failures"].append({"inputs": rtc.to_jsonable(kwargs), "clause": o3.clause, "observed": o3.observed, "history": [],
                                            "detail": ("with every 2-D+ array argument in Fortran order (np.asfortranarray): " if kind == "F" else
                                                       "with every numeric array argument in big-endian byte order (x.astype('>f8')): ") + str(o3.detail),
                                            "layout": kind})
                    if len(out["failures"]) >= 5:
                        break
        hist.append(rtc.to_jsonable(kwargs))
        if time.time() - t0 > limit_s:
            out["truncated"] = True
            break
    out["wall_s"] = round(time.time() - t0, 2)
    return out


def run_bounded(cid, tier, seed):
    from pyvc import bounded, rtc
    bounded.load_all()
    rtc.import_repo()
    chk = bounded.CHECKS[cid]
    rng = random.Random(("%s|%s" % (seed, cid)))
    rng_twin = random.Random(("%s|%s|twin" % (seed, cid)))      # its own stream: the twins must not shift the case stream of the generator
    out = {"id": cid, "evaluations": 0, "nontrivial": 0, "failures": [], "status": "ok", "samples": [], "doc": chk.doc.strip()}
    t0 = time.time()
    limit_s = 10.0 if tier == "quick" else 120.0
    seen = set()
    hist = collections.deque(maxlen=HISTORY)
    for inputs in chk.gen(rng, tier):
        out["evaluations"] += 1
        try:
            msg = chk.run(inputs)
        except Exception:
            msg = "exception: " + traceback.format_exc()[-800:]
        js = rtc.to_jsonable(inputs)
        h = hashlib.sha1(json.dumps(js, sort_keys=True, default=str).encode()).hexdigest()
        if h not in seen:
            seen.add(h)
            if chk.nontrivial is None or chk.nontrivial(**inputs):
                out["nontrivial"] += 1
        if len(out["samples"]) < 2:
            out["samples"].append(js)
        if msg is not None:
            out["failures"].append({"inputs": js, "clause": cid, "detail": msg, "history": list(hist)})
            if len(out["failures"]) >= 5:
                break
        elif rng_twin.random() < DERIVED_TWIN_P:
            # derived-object twin (pyvc/bounded.py): the same case with the masks / kernels / meshes the check builds obtained as
            # derived objects of a parent that was used first -- same contents, so the check's own oracle must still pass
            try:
                with bounded.derived_constructors():
                    msg2 = chk.run(rtc.from_jsonable(js))
            except Exception:
                msg2 = "exception: " + traceback.format_exc()[-800:]
            out["derived_twins"] = out.get("derived_twins", 0) + 1
            if msg2 is not None:
                out["failures"].append({"inputs": js, "clause": cid, "detail": bounded.DERIVED_NOTE + str(msg2), "history": [], "layout": "DERIVED"})
                if len(out["failures"]) >= 5:
                    break
        hist.append(js)
        if time.time() - t0 > limit_s:
            out["truncated"] = True
            break
    out["wall_s"] = round(time.time() - t0, 2)
    return out


# --------------------------------------------------------------------------- known findings

def load_known():
    p = os.path.join(ROOT, "known_findings.json")
    if not os.path.exists(p):
        return []
    return json.load(open(p)).get("findings", [])


def match_known(known, prop, where, inputs_js):
    from pyvc import rtc
    import numpy as np
    inputs = rtc.from_jsonable(inputs_js)
    for k in known:
        if k.get("status") != "known" or k.get("property") != prop or k.get("where") != where:
            continue
        try:
            ns = {"np": np}
            ns.update(inputs)
            if eval(k.get("predicate", "True"), ns):
                return k
        except Exception:
            continue
    return None


# --------------------------------------------------------------------------- check

def model_to_kwargs(c, model):
    """counter-model summary -> concrete kwargs for the real function (None if not representable)"""
    import numpy as np
    from pyvc.engine import parse_type
    out = {}
    try:
        for p, ts in c.types.items():
            ty = parse_type(ts)
            v = model.get(p)

            def conv(ty, v):
                if ty[0] == "arr":
                    if not isinstance(v, dict) or not isinstance(v.get("data"), dict):
                        raise ValueError
                    shape = tuple(v["shape"])
                    dt = {"real": float, "int": int, "bool": bool}[ty[1]]
                    a = np.zeros(shape, dtype=dt)
                    for k, x in v["data"].items():
                        idx = tuple(int(i) for i in k.split(",")) if k else ()
                        if isinstance(x, str):
                            raise ValueError
                        a[idx] = x
                    return a
                if ty[0] == "tuple":
                    return tuple(conv(t, x) for t, x in zip(ty[1], v))
                if ty[0] == "int":
                    return int(v)
                if ty[0] == "real":
                    return float(v)
                if ty[0] == "bool":
                    return bool(v)
                return v
            out[p] = conv(ty, v)
        return out
    except Exception:
        return None


from pyvc import bounded as bounded_mod


def cmd_check(pid, tier, seed, opts):
    from pyvc import rtc, bounded
    t0 = time.time()
    load_all()
    bounded.load_all()
    contracts = for_property(pid)
    bchecks = bounded.for_property(pid)
    known = load_known()
    meta = PROPERTY_META.get(pid, {})
    level = meta.get("level", "proof" if contracts else "exploration")
    lines, exit_code = [], EXIT_OK
    tasks = []
    for c in contracts:
        if not c.trusted and c.mode != "bounded":
            tasks.append(("A", c.key, tier, seed, opts))
        if c.gen is not None:
            tasks.append(("C", c.key, tier, seed, opts))
    for b in bchecks:
        tasks.append(("B", b.id, tier, seed, opts))
    frame_units = []
    if meta.get("frames_of_all_contracts"):
        # purity, per function: "never modifies the arrays passed to it" is the frame:/fresh: obligation of EVERY contracted
        # kernel (whatever property the contract was written for); proved here for all inputs
        frame_units = [c for c in CONTRACTS.values() if not c.trusted and c.mode == "proof" and c not in contracts]
        for c in frame_units:
            tasks.append(("F", c.key, tier, seed, opts))
    from pyvc.contract import load_errors_for
    lerr = load_errors_for(pid)
    if lerr:
        for name, err in lerr.items():
            print("CHECKER-ERROR property=%s contract module %s failed to load: %s" % (pid, name, err.strip().splitlines()[-1]))
        return EXIT_ERROR
    if not tasks:
        print("CHECKER-ERROR property=%s no contracts and no bounded checks registered" % pid)
        return EXIT_ERROR
    nproc = min(int(os.environ.get("VERIF_JOBS", "16")), len(tasks))
    # every task runs in its own worker with a wall-clock cap: a solver call that ignores its time-out must not hang the check
    cap = float(os.environ.get("VERIF_TASK_CAP_S", "600" if tier == "quick" else "3600"))
    results = []
    pool = mp.get_context("fork").Pool(nproc, maxtasksperchild=1)
    try:
        handles = [(t, pool.apply_async(_task, (t,))) for t in tasks]
        deadline = time.time() + cap
        for t, h in handles:
            try:
                results.append(h.get(timeout=max(1.0, deadline - time.time())))
            except mp.TimeoutError:
                kind, arg = t[0], t[1]
                if kind == "A":
                    results.append(("A", arg, {"status": "outside-subset", "error": "task exceeded the %.0f s wall-clock cap" % cap,
                                               "obligations": [], "key": arg}))
                else:
                    results.append((kind, arg, {"status": "ok", "evaluations": 0, "accepted": 1, "nontrivial": 0, "failures": [],
                                                "samples": [], "truncated": True, "capped": True}))
    finally:
        pool.terminate()
    A = {k: r for kind, k, r in results if kind in ("A", "F")}
    contracts = list(contracts) + frame_units
    C = {k: r for kind, k, r in results if kind == "C"}
    Bn = {k: r for kind, k, r in results if kind == "B"}
    # retry obligations that came back `unknown` once, alone, with a larger budget (load robustness)
    for key, r in list(A.items()):
        if key in C and C[key].get("failures"):
            continue            # engine C already has a concrete failing input for this function
        if r.get("status") == "ok" and any(o["result"] == "unknown" for o in r["obligations"]):
            from pyvc.verify import verify
            r2 = verify(key, timeout_ms=60000)
            if r2.get("status") == "ok":
                A[key] = r2
    # frame units (purity of EVERY contracted kernel, C11) whose frame obligations engine A could not decide -- stale contract, body outside
    # the subset, solver `unknown` -- are escalated to the run-time frame / freshness check of that contract on its own generator: only a
    # modified argument or an aliasing result counts here (the value clauses belong to the contract's own property)
    fesc = [c.key for c in frame_units if c.gen is not None and (
        A.get(c.key, {}).get("status") in ("stale", "outside-subset")
        or any(o["result"] not in ("unsat", "reachable") for o in A.get(c.key, {}).get("obligations", [])))]
    if fesc:
        pool3 = mp.get_context("fork").Pool(min(nproc, len(fesc)), maxtasksperchild=1)
        try:
            hs = [(k, pool3.apply_async(_task, (("C", k, "quick", seed, opts),))) for k in fesc]
            dl = time.time() + 120.0
            for key, h in hs:
                try:
                    (_kind, _key, r) = h.get(timeout=max(1.0, dl - time.time()))
                except mp.TimeoutError:
                    continue
                ff = [f for f in r.get("failures", []) if str(f.get("clause", "")).startswith(("frame:", "fresh:"))]
                if ff:
                    C[key] = dict(r, failures=ff)
        finally:
            pool3.terminate()
    # escalation: functions engine A could not decide get a large-input search (their usual cause is a restructured body,
    # e.g. a fast path for large arrays, which the small quick domain cannot reach)
    esc = []
    for key, r in A.items():
        c0 = CONTRACTS.get(key)
        if c0 is None or getattr(c0, "gen_large", None) is None or (key in C and C[key].get("failures")):
            continue
        if r.get("status") in ("stale", "outside-subset") or any(
                o["result"] == "unknown" or (o["kind"] == "reach" and o["result"] != "unsat") for o in r.get("obligations", [])):
            esc.append(key)
    if esc:
        pool2 = mp.get_context("fork").Pool(min(nproc, len(esc)), maxtasksperchild=1)
        try:
            hs = [(k, pool2.apply_async(_task, (("C", k, "large", seed, opts),))) for k in esc]
            dl = time.time() + float(os.environ.get("VERIF_ESCALATION_CAP_S", "240"))
            for key, h in hs:
                try:
                    (_kind, _key, r) = h.get(timeout=max(1.0, dl - time.time()))
                except mp.TimeoutError:
                    continue            # one large case did not finish inside the cap: nothing learned, stays undecided
                if r.get("failures"):
                    C[key] = r
                elif key in C:
                    C[key]["escalated"] = {"evaluations": r.get("accepted", 0), "wall_s": r.get("wall_s")}
        finally:
            pool2.terminate()
    obligations, discharged, samples, undecided, errors = 0, 0, [], [], []
    funcs, trusted_funcs, bounded_only = [], [], []
    failed_obls = []
    for c in contracts:
        if c.trusted:
            trusted_funcs.append(c.key)
            continue
        if c.mode == "bounded":
            bounded_only.append(c.key)
            continue
        r = A[c.key]
        if r["status"] in ("stale", "outside-subset"):
            undecided.append((c.key, r["status"], r["error"]))
            continue
        if r["status"] != "ok":
            errors.append((c.key, r.get("error")))
            continue
        funcs.append({"function": c.key, "file_sha": r.get("sha"), "obligations": len([o for o in r["obligations"] if o["kind"] != "canary"]),
                      "callees_by_contract": r.get("callees", []), "solver_s": round(sum(o["ms"] for o in r["obligations"]) / 1000.0, 3)})
        for o in r["obligations"]:
            if o["kind"] == "canary":
                if o["result"] == "VACUOUS":
                    errors.append((c.key, "vacuity canary %s is unreachable: contradictory preconditions/invariants" % o["name"]))
                continue
            obligations += 1
            if o["result"] == "unsat":
                discharged += 1
                if len(samples) < 12 and o["kind"] in ("post", "inv-pres", "lemma", "frame", "raises", "call-pre"):
                    samples.append({"function": c.qualname, "obligation": o["name"], "backend": "z3-" + o.get("how", ""), "ms": o["ms"],
                                    **({"cvc5": o["cvc5"]} if "cvc5" in o else {})})
            else:
                failed_obls.append((c, o))
            if "cvc5" in o and o["cvc5"] == "sat" and o["result"] == "unsat":
                errors.append((c.key, "solver disagreement on %s: z3 unsat, cvc5 sat" % o["name"]))
    # ---- engine C / bounded failures
    violations, known_hits = [], []
    ev_total, nontriv_total, bsamples = 0, 0, []

    def handle_failures(kind, where, fails):
        nonlocal exit_code
        for f in fails:
            k = match_known(known, pid, where, f["inputs"])
            if k is not None:
                known_hits.append((k, where))
                continue
            out = rtc.Outcome("fail", f.get("clause"), f.get("detail"), f.get("observed"))
            path = rtc.write_replay(pid, kind, where, rtc.from_jsonable(f["inputs"]), out,
                                    extra=({"layout": f["layout"]} if f.get("layout") else None))
            again = rtc.replay_isolated(path)          # re-execute from the file, in a fresh interpreter, before reporting
            if again.status != "fail" and f.get("history"):
                # the failure needs the calls that preceded it (module- or object-level state in the code under check): find the
                # shortest suffix of the recorded history after which the input fails again, and file that with the replay
                os.remove(path)
                for n in range(1, len(f["history"]) + 1):
                    path = rtc.write_replay(pid, kind, where, rtc.from_jsonable(f["inputs"]), out, extra={"history": f["history"][-n:]})
                    again = rtc.replay_isolated(path)
                    if again.status == "fail":
                        break
                    os.remove(path)
            if again.status == "fail":
                violations.append((where, f.get("clause"), path, ""))
            else:
                errors.append((where, "failure did not reproduce from its replay file (alone or after the %d preceding inputs)" % len(f.get("history") or [])))

    for key, r in C.items():
        if r.get("status") == "checker-error":
            errors.append((key, r.get("error")))
            continue
        ev_total += r.get("accepted", 0)
        nontriv_total += r.get("nontrivial", 0)
        bsamples.extend(r.get("samples", [])[:1])
        handle_failures("contract", key, r.get("failures", []))
        c = CONTRACTS[key]
        if r.get("status") == "ok" and r.get("accepted", 0) == 0:
            errors.append((key, "vacuity: the run-time generator produced no input satisfying the precondition"))
    for cid, r in Bn.items():
        if r.get("status") == "checker-error":
            errors.append((cid, r.get("error")))
            continue
        ev_total += r.get("evaluations", 0)
        nontriv_total += r.get("nontrivial", 0)
        bsamples.extend(r.get("samples", [])[:1])
        handle_failures("bounded", cid, r.get("failures", []))
    # ---- failed proof obligations
    violated_funcs = {w for (w, _, _, _) in violations}
    for c, o in failed_obls:
        if c.key in violated_funcs:
            continue        # already reported with a concrete failing input
        if any(k.get("status") == "known" and k.get("property") == pid and k.get("where") == c.key and
               k.get("obligation") in (None, o["name"]) and k.get("covers_proof") for k in known):
            continue
        replayed = None
        if o["result"] == "sat" and o.get("model"):
            kw = model_to_kwargs(c, o["model"])
            if kw is not None:
                try:
                    oc = rtc.run_contract(c, kw)
                    if oc.status == "fail":
                        kf = match_known(known, pid, c.key, rtc.to_jsonable(kw))
                        if kf is not None:
                            known_hits.append((kf, c.key))
                            replayed = "known"
                        else:
                            path = rtc.write_replay(pid, "contract", c.key, kw, oc, obligation=o["name"], solver="z3 sat")
                            violations.append((c.key, o["name"], path, ""))
                            replayed = path
                except Exception:
                    pass
        if replayed:
            continue
        if o["result"] == "sat" and o["kind"] == "reach":
            undecided.append((c.key, "a path the verifier cannot model is reachable (%s)" % o["name"], o.get("goal")))
        elif o["result"] == "sat":
            path = rtc.write_replay(pid, "obligation", c.key, {}, None, obligation=o["name"],
                                    solver={"result": "sat", "goal": o.get("goal"), "model": o.get("model"), "line": o.get("line")})
            violations.append((c.key, o["name"], path, " no-failing-input-found"))
        else:
            undecided.append((c.key, "obligation %s: solver answered %s" % (o["name"], o["result"]), o.get("goal")))
    # known findings that no longer fail are reported as stale (informational)
    for k, where in {(json.dumps(k, sort_keys=True), w) for k, w in known_hits}:
        kk = json.loads(k)
        lines.append("KNOWN-FINDING: property=%s %s" % (pid, kk.get("what")))
    for (where, clause, path, suffix) in violations:
        lines.append("VIOLATION property=%s replay=%s%s" % (pid, path, suffix))
        lines.append("  function/check: %s   failed: %s" % (where, clause))
    for (where, why, detail) in undecided:
        lines.append("UNDECIDED property=%s where=%s reason=%s" % (pid, where, str(why).replace("\n", " ")[:300]))
    for (where, why) in errors:
        lines.append("CHECKER-ERROR property=%s where=%s %s" % (pid, where, str(why).strip().splitlines()[-1][:300] if why else ""))
    if obligations == 0 and level == "proof":
        lines.append("CHECKER-ERROR property=%s zero proof obligations generated" % pid)
        errors.append((pid, "zero obligations"))
    if violations:
        exit_code = EXIT_VIOLATION
    elif errors:
        exit_code = EXIT_ERROR
    elif undecided:
        exit_code = EXIT_UNDECIDED
    # ---- evidence
    wall = round(time.time() - t0, 2)
    trusted_base = [ASSUMPTIONS[k] for k in ("R1", "R2", "R3", "R4", "R5", "R6", "R7", "T")]
    trusted_base += ["assumed contract (not verified): " + k for k in trusted_funcs]
    trusted_base += meta.get("trusted", [])
    extdir = os.path.join(ROOT, "pyvc", "ext")
    exts = sorted(f[:-3] for f in os.listdir(extdir) if f.endswith(".py") and f != "__init__.py") if os.path.isdir(extdir) else []
    if exts and funcs:
        trusted_base.append("engine extensions loaded (numpy primitives axiomatised by minimal quantified facts, engine hooks; each module "
                            "header states the exact facts and why they are sound): pyvc/ext/{%s}.py" % ",".join(exts))
    trusted_base += ["z3 %s (python API) as the only prover; e-matching/MBQI portfolio; hypotheses may be dropped (sound), never added"
                     % _z3v()]
    cov = {
        "obligations": obligations, "discharged": discharged,
        "checker_cmd": "./vf check %s --tier %s" % (pid, tier),
        "trusted_base": trusted_base,
        "samples": samples + [{"bounded_input": s} for s in bsamples[:3]],
        "functions_under_contract": funcs,
        "functions_bounded_only": bounded_only,
        "solver_s": round(sum(f["solver_s"] for f in funcs), 2),
        "bounded": {"evaluations": ev_total, "distinct_nontrivial": nontriv_total,
                    "rule": meta.get("bounded_rule", "engine C: exhaustive small domains then seeded random inputs through the run-time "
                                     "reading of the same contracts on the real functions; an input is non-trivial by the per-check rule"),
                    "checks": sorted(list(C.keys()) + list(Bn.keys())), "never_counted_as_proved": True,
                    "integer_dtype_twins": sum(int(r.get("int_twins", 0)) for r in C.values() if isinstance(r, dict)),
                    "fortran_layout_twins": sum(int(r.get("layout_twins", 0)) for r in C.values() if isinstance(r, dict)),
                    "reshaped_twin_streams": sorted(k for k in Bn if getattr(bounded_mod.CHECKS.get(k), "twins", False)),
                    "replays": "every failure is re-executed from its replay file in a fresh interpreter before it is reported; "
                               "a failure that needs the preceding inputs is filed with the shortest reproducing history"},
        "evaluations": max(ev_total, 1), "distinct_nontrivial": max(nontriv_total, 0),
        "rule": "proof obligations are listed under obligations/discharged; evaluations/distinct_nontrivial count ONLY the bounded "
                "stand-in runs of engine C (distinct inputs that satisfy the precondition and are non-trivial by the check's rule)",
        "undecided": [list(map(str, u))[:2] for u in undecided],
        "known_findings_hit": sorted({k.get("id") for k, _ in known_hits}),
    }
    if level != "proof":
        cov["explanation"] = meta.get("explanation", "")
    evidence = {"property_id": pid, "tier": tier, "seed": seed, "level": level, "coverage": cov,
                "assumptions": trusted_base, "wall_s": wall, "violations": len(violations)}
    evdir = os.environ.get("VERIF_EVIDENCE_DIR", os.path.join(ROOT, "evidence"))
    os.makedirs(evdir, exist_ok=True)
    with open(os.path.join(evdir, pid + ".json"), "w") as f:
        json.dump(evidence, f, indent=1, default=str)
    for l in lines:
        print(l)
    print("%s %s: %d/%d obligations discharged over %d functions; bounded stand-in %d evaluations (%d non-trivial); %.1fs; exit %d"
          % (pid, tier, discharged, obligations, len(funcs), ev_total, nontriv_total, wall, exit_code))
    return exit_code


def _z3v():
    import z3
    return z3.get_version_string()


PROPERTY_META = {}


def load_meta():
    p = os.path.join(ROOT, "property_meta.json")
    if os.path.exists(p):
        PROPERTY_META.update(json.load(open(p)))


def cmd_replay(path):
    from pyvc import rtc
    o = rtc.replay(path)
    body = json.load(open(path))
    print("replay %s: %s" % (path, o.status))
    if o.status == "fail":
        print("VIOLATION property=%s replay=%s" % (body["property"], path))
        print("  failed:", o.clause, "--", o.detail)
        return EXIT_VIOLATION
    return EXIT_OK


def cmd_explain(pid):
    load_all()
    for c in for_property(pid):
        print(c.key, "(trusted)" if c.trusted else "")
        for e in c.ensures:
            s = [v for k, v in c.sentence.items() if k in e]
            print("   ensures", e[:110], "\n        <=", s[0] if s else "(helper clause)")
    return 0


def cmd_prove(keys, slow_ms=300):
    """engine A only, on the given contract / corollary keys (prefix match allowed); prints every obligation that is
    not discharged, and the slow ones"""
    load_all()
    from pyvc.contract import COROLLARIES
    from pyvc.verify import verify
    allk = list(CONTRACTS) + list(COROLLARIES)
    sel = []
    for k in keys:
        m = [a for a in allk if a == k] or [a for a in allk if k in a]
        if not m:
            print("no contract matches", k)
        sel.extend(m)
    rc = 0
    for k in dict.fromkeys(sel):
        r = verify(k)
        err = (r.get("error") or "").strip().splitlines()[-1:] if r["status"] != "checker-error" else [r.get("error")]
        print(k, r["status"], *err)
        n = 0
        for o in r["obligations"]:
            n += 1
            bad = o["result"] not in ("unsat", "reachable")
            if bad or o["ms"] > slow_ms:
                print("    %-40s %-9s %6d ms %-10s line %s" % (o["name"], o["result"], o["ms"], o.get("how", ""), o.get("line")))
                if bad and o.get("goal"):
                    print("        goal:", o["goal"][:400].replace("\n", " "))
                if o.get("model"):
                    print("        counter-model:", json.dumps(o["model"], default=str)[:400])
            if bad:
                rc = 1
        if r["status"] != "ok":
            rc = 1
        print("  obligations", n, "wall", r.get("wall_s"))
    return rc


def cmd_list():
    load_all()
    from pyvc import bounded
    bounded.load_all()
    props = sorted({p for c in CONTRACTS.values() for p in c.props} | {b.prop for b in bounded.CHECKS.values()})
    for p in props:
        print(p, len(for_property(p)), "contracts,", len(bounded.for_property(p)), "bounded checks")
    return 0


def main(argv=None):
    ap = argparse.ArgumentParser(prog="vf")
    sub = ap.add_subparsers(dest="cmd", required=True)
    c = sub.add_parser("check"); c.add_argument("pid"); c.add_argument("--tier", default=os.environ.get("VERIF_TIER", "quick"))
    c.add_argument("--cvc5", action="store_true")
    r = sub.add_parser("replay"); r.add_argument("path")
    e = sub.add_parser("explain"); e.add_argument("pid")
    sub.add_parser("list")
    pv = sub.add_parser("prove"); pv.add_argument("keys", nargs="+")
    s = sub.add_parser("selftest"); s.add_argument("--quick", action="store_true")
    a = ap.parse_args(argv)
    load_meta()
    seed = int(os.environ.get("VERIF_SEED", "0"))
    if a.cmd == "check":
        tier = a.tier if a.tier in ("quick", "thorough") else "quick"
        opts = {"cvc5": a.cvc5 or (tier == "thorough" and os.environ.get("VERIF_CVC5", "1") == "1")}
        return cmd_check(a.pid, tier, seed, opts)
    if a.cmd == "replay":
        return cmd_replay(a.path)
    if a.cmd == "explain":
        return cmd_explain(a.pid)
    if a.cmd == "list":
        return cmd_list()
    if a.cmd == "prove":
        return cmd_prove(a.keys)
    if a.cmd == "selftest":
        from pyvc import selftest
        return selftest.main(a.quick)


if __name__ == "__main__":
    sys.exit(main())
