"""Call handling for engine A: DSL forms, builtins, numpy primitives, contracted repo functions."""
from __future__ import annotations
import ast
from fractions import Fraction
import z3

from . import source
from .engine import (Engine, State, Ref, Arr, Cplx, StrV, NpV, FuncV, ModuleV, ExcV, Exit, OutsideSubset,
                     ContractStale, I, R, B, toz, to_real, to_int_strict, trunc, num_of_bool, sort_kind,
                     is_z3, arr_sort, parse_type, UF_MATH, F_SQRT, _occurs, Maybe, Poison)
from .contract import CONTRACTS, SPECS, MACROS

DSL = {"forall", "exists", "implies", "iff", "old", "sumto", "ite", "toint", "toreal", "count"}


def do_call(E: Engine, node: ast.Call, st: State):
    f = node.func
    # ---------------- DSL forms (spec mode only)
    if E.spec_mode and isinstance(f, ast.Name):
        nm = f.id
        if nm in ("forall", "exists"):
            return quant(E, nm, node, st)
        if nm == "implies":
            a, b = [toz(E.truth(E.ev(x, st))) for x in node.args]
            return z3.Implies(a, b)
        if nm == "iff":
            a, b = [toz(E.truth(E.ev(x, st))) for x in node.args]
            return a == b
        if nm == "old":
            E.heap_override.append(E.entry.heap)
            try:
                return snapshot(E, E.ev(node.args[0], st), st)
            finally:
                E.heap_override.pop()
        if nm == "sumto":
            n = E.ev(node.args[0], st)
            return E.sumto(n, node.args[1], st)
        if nm == "count":       # count(lo, hi, lambda k: P) = sum_{lo<=k<hi} [P]  (as sumto over shifted index)
            raise OutsideSubset("count: use sumto")
        if nm in ("sqrt", "sin", "cos", "exp", "log") and nm not in st.env:
            E.math_used.add(nm)
            return UF_MATH[nm](to_real(E.ev(node.args[0], st)))
        if nm == "arctan2" and nm not in st.env:
            return UF_MATH["arctan2"](to_real(E.ev(node.args[0], st)), to_real(E.ev(node.args[1], st)))
        if nm == "radians" and nm not in st.env:
            return to_real(E.ev(node.args[0], st)) * PI / 180
        if nm in ("creal", "cimag") and nm not in st.env:
            v = E.ev(node.args[0], st)
            v = E.to_cplx(v)
            return v.re if nm == "creal" else v.im
        if nm in ("arr1", "arr2") and nm not in st.env:
            return derived_array(E, nm, node, st)
        if nm == "isint" and nm not in st.env:
            v = E.ev(node.args[0], st)
            return True if sort_kind(v) == "int" else (z3.ToReal(trunc(to_real(v))) == to_real(v))
        if nm == "floor" and nm not in st.env:
            v = E.ev(node.args[0], st)
            return v if sort_kind(v) == "int" else trunc(to_real(v))    # used on non-negative integer-valued floats
        if nm == "toreal":
            return to_real(E.ev(node.args[0], st))
        if nm == "toint":
            return trunc(E.ev(node.args[0], st))
        if nm in SPECS:
            args = [E.ev(a, st) for a in node.args]
            return E.spec_apply(nm, args, st)
        if nm in MACROS:
            m = MACROS[nm]
            args = [E.ev(a, st) for a in node.args]
            if m.opaque is not None and nm not in (getattr(E.c, "reveal", None) or []):
                def _srt(t):
                    ty = parse_type(t)
                    return arr_sort(ty[1], ty[2]) if ty[0] == "arr" else {"int": I, "real": R, "bool": B}[t]
                sorts = [_srt(t) for t in m.opaque[0]]
                f = z3.Function("macro." + nm, *(sorts + [_srt(m.opaque[1])]))
                zargs = []
                for a, t in zip(args, m.opaque[0]):
                    if parse_type(t)[0] == "arr":
                        zargs.append(E.deref(a, st).data)      # NB: an opaque macro over an array must receive its shape as explicit arguments
                    else:
                        zargs.append(to_real(a) if t == "real" else (to_int_strict(a) if t == "int" else toz(a)))
                return f(*zargs)
            sub = State(dict(zip(m.params, args)), st.heap, st.pc)
            return E.ev(ast.parse(m.body, mode="eval").body, sub)
    fv = E.ev(f, st)
    # ---------------- method calls on arrays
    if isinstance(fv, tuple) and len(fv) == 3 and fv[0] == "method":
        _, base, meth = fv
        arr = E.deref(base, st)
        if meth == "copy":
            rid = next(E.ids)
            st.heap[rid] = Arr(arr.data, arr.shape, arr.elem)
            return Ref(rid)
        if meth == "astype":
            t = E.ev(node.args[0], st)
            tn = t.s if isinstance(t, StrV) else (t.path if isinstance(t, NpV) else None)
            if tn in ("int", "builtin.int", "np.int64", "int64"):
                return astype_int(E, arr, st)
            if tn in ("float", "float64", "builtin.float", "np.float64"):
                return astype_real(E, arr, st)
            if tn in ("bool", "builtin.bool"):
                if arr.elem == "bool":
                    rid = next(E.ids); st.heap[rid] = Arr(arr.data, arr.shape, arr.elem); return Ref(rid)
            raise OutsideSubset("astype(%r)" % tn)
        if meth == "sum" and not node.args:
            return np_sum(E, arr, st)
        if meth in METHOD_EXT:
            return METHOD_EXT[meth](E, base, arr, node, st)
        raise OutsideSubset("array method ." + meth)
    if isinstance(fv, tuple) and len(fv) == 3 and fv[0] == "omethod":
        _, selfv, mkey = fv
        return repo_call(E, mkey, node, st, self_value=selfv)
    # ---------------- builtins / numpy
    if isinstance(fv, NpV):
        return np_call(E, fv.path, node, st)
    # ---------------- repo functions
    if isinstance(fv, FuncV):
        return repo_call(E, fv.key, node, st)
    raise OutsideSubset("call of %r at line %s" % (fv, getattr(node, "lineno", "?")))


def snapshot(E, v, st):
    """turn Refs into immutable Arr snapshots of the currently selected heap"""
    if isinstance(v, Ref):
        a = E.deref(v, st)
        return Arr(a.data, a.shape, a.elem)
    if isinstance(v, tuple):
        return tuple(snapshot(E, x, st) for x in v)
    return v


def quant(E: Engine, kind, node, st):
    # forall(lo, hi, lambda i: body)   nested forall directly in the body is flattened
    vars_, guards = [], []
    sub = State(dict(st.env), st.heap, st.pc)
    cur = node
    pats = None
    while True:
        if len(cur.args) != 3 or not isinstance(cur.args[2], ast.Lambda):
            raise OutsideSubset("quantifier form")
        lam = cur.args[2]
        lo = to_int_strict(E.ev(cur.args[0], sub))
        hi = to_int_strict(E.ev(cur.args[1], sub))
        if len(lam.args.args) != 1:
            raise OutsideSubset("quantifier lambda arity")
        v = E.fresh(lam.args.args[0].arg, I)
        sub.env[lam.args.args[0].arg] = v
        vars_.append(v)
        guards.append(z3.And(lo <= v, v < hi))
        for kw in cur.keywords:
            if kw.arg == "pat":
                pats = kw.value
        body = lam.body
        if isinstance(body, ast.Call) and isinstance(body.func, ast.Name) and body.func.id == kind:
            cur = body
            continue
        break
    E.bound_vars.extend(vars_)
    try:
        b = toz(E.truth(E.ev(body, sub)))
        patterns = []
        if pats is not None:
            pv = E.ev(pats, sub)
            pv = pv if isinstance(pv, tuple) else (pv,)
            for p in pv:
                if isinstance(p, tuple):
                    patterns.append(z3.MultiPattern(*[toz(x) for x in p]))
                else:
                    patterns.append(toz(p))
    finally:
        del E.bound_vars[len(E.bound_vars) - len(vars_):]
    # explicit patterns must mention every variable of their quantifier: variables they do not cover are
    # moved to an outer quantifier (logically equivalent re-nesting)
    qid = "q%d_%s" % (next(E.fresh_n), "_".join(str(v).split("!")[0] for v in vars_))
    try:
        qid += "_" + "".join(ch if ch.isalnum() else "_" for ch in ast.unparse(body)[:40])
    except Exception:
        pass
    inner, outer = list(vars_), []
    if patterns:
        covered = [v for v in vars_ if all(_occurs_pat(v, p) for p in patterns)]
        if len(covered) < len(vars_):
            if not covered:
                patterns, covered = [], list(vars_)
            inner, outer = covered, [v for v in vars_ if not any(v.eq(c) for c in covered)]
    if not outer:
        g = z3.And(guards) if len(guards) > 1 else guards[0]
        if kind == "forall":
            return z3.ForAll(inner, z3.Implies(g, b), patterns=patterns, qid=qid)
        return z3.Exists(inner, z3.And(g, b), patterns=patterns)
    g_out = [g for g in guards if not any(_occurs(v, g) for v in inner)]
    g_in = [g for g in guards if any(_occurs(v, g) for v in inner)]
    gi = z3.And(g_in) if len(g_in) > 1 else (g_in[0] if g_in else z3.BoolVal(True))
    go = z3.And(g_out) if len(g_out) > 1 else (g_out[0] if g_out else z3.BoolVal(True))
    if kind == "forall":
        return z3.ForAll(outer, z3.Implies(go, z3.ForAll(inner, z3.Implies(gi, b), patterns=patterns, qid=qid + '_in')), qid=qid + '_out')
    return z3.Exists(outer, z3.And(go, z3.Exists(inner, z3.And(gi, b), patterns=patterns)))


def _occurs_pat(v, p):
    return _occurs(v, p)


def derived_array(E: Engine, nm, node, st):
    """arr1(n, lambda i: e) / arr2(H, W, lambda a, b: e): the ghost array defined pointwise by e.  Identical
    definitions (up to renaming of the lambda variables) denote the SAME array symbol, so spec functions applied to
    them (cnt2 of a derived mask, ...) share one instance."""
    rank = 1 if nm == "arr1" else 2
    dims = [to_int_strict(E.ev(a, st)) for a in node.args[:rank]]
    lam = node.args[rank]
    if not isinstance(lam, ast.Lambda) or len(lam.args.args) != rank:
        raise OutsideSubset("arr1/arr2 form")
    vs = [E.fresh(a.arg, I) for a in lam.args.args]
    sub = State(dict(st.env), st.heap, st.pc)
    for a, v in zip(lam.args.args, vs):
        sub.env[a.arg] = v
    E.bound_vars.extend(vs)
    try:
        body = E.ev(lam.body, sub)
    finally:
        del E.bound_vars[len(E.bound_vars) - rank:]
    body = toz(body if not isinstance(body, bool) else z3.BoolVal(body))
    elem = sort_kind(body)
    canon = [(v, z3.Const("dv!%d" % i, I)) for i, v in enumerate(vs)]
    key = ("derived", z3.substitute(body, *canon).sexpr(), tuple(d.sexpr() for d in dims))
    if key not in E.sum_inst:
        data = E.fresh("derived", arr_sort(elem, rank))
        out = Arr(data, dims, elem)
        rng = z3.And([z3.And(v >= 0, v < d) for v, d in zip(vs, dims)])
        sel = E.select(out, vs)
        ax = z3.ForAll(vs, z3.Implies(rng, sel == body), patterns=[sel])
        E.sum_inst[key] = (out, [ax])
    return E.sum_inst[key][0]


def astype_int(E, arr, st):
    if arr.elem == "int":
        rid = next(E.ids); st.heap[rid] = Arr(arr.data, arr.shape, "int"); return Ref(rid)
    idx = [E.fresh("i", I) for _ in arr.shape]
    out = Arr(E.fresh("asint", arr_sort("int", arr.rank)), arr.shape, "int")
    src = E.select(arr, idx)
    st.pc.append(z3.ForAll(idx, E.select(out, idx) == trunc(src if arr.elem == "real" else num_of_bool(src))))
    rid = next(E.ids); st.heap[rid] = out
    return Ref(rid)


def astype_real(E, arr, st):
    if arr.elem == "real":
        rid = next(E.ids); st.heap[rid] = Arr(arr.data, arr.shape, "real"); return Ref(rid)
    idx = [E.fresh("i", I) for _ in arr.shape]
    out = Arr(E.fresh("asreal", arr_sort("real", arr.rank)), arr.shape, "real")
    st.pc.append(z3.ForAll(idx, E.select(out, idx) == to_real(E.select(arr, idx))))
    rid = next(E.ids); st.heap[rid] = out
    return Ref(rid)


def np_sum(E: Engine, arr: Arr, st):
    """np.sum of a 1-D array: partial-sum function keyed by the array term, with the counting lemma for
    boolean arrays provided as *axioms whose inductive proof is emitted as obligations*."""
    if arr.rank != 1:
        raise OutsideSubset("np.sum of rank %d" % arr.rank)
    key = ("npsum", arr.data.get_id())
    if key not in E.sum_inst:
        rs = I if arr.elem in ("bool", "int") else R
        f = z3.Function("asum!%d" % next(E.fresh_n), I, rs)
        k = E.fresh("k", I)
        el = z3.Select(arr.data, k)
        term = z3.If(el, z3.IntVal(1), z3.IntVal(0)) if arr.elem == "bool" else el
        zero = z3.IntVal(0) if rs == I else z3.RealVal(0)
        ax = [f(z3.IntVal(0)) == zero,
              z3.ForAll([k], z3.Implies(k >= 0, f(k + 1) == f(k) + term), patterns=[f(k)])]
        E.sum_inst[key] = (f, ax)
        if arr.elem == "bool":
            # lemma (induction on n): 0 <= S(n) <= n  and  S(n) == n  <=>  all true below n
            n = E.fresh("n", I)
            j = E.fresh("j", I)
            allb = lambda m: z3.ForAll([j], z3.Implies(z3.And(j >= 0, j < m), z3.Select(arr.data, j)))
            P = lambda m: z3.And(f(m) >= 0, f(m) <= m, (f(m) == m) == allb(m))
            tail = lambda m: z3.ForAll([j], z3.Implies(z3.And(j >= 1, j < m), z3.Select(arr.data, j)))
            b0 = z3.Select(arr.data, z3.IntVal(0))
            Q = lambda m: z3.Implies(z3.Not(b0), z3.And(f(m) <= m - 1, (f(m) == m - 1) == tail(m)))
            E.spec_inst[key] = {"f": f, "name": "asum", "axioms": ax, "env": {}, "lemmas": [
                {"name": "asum.count@%s" % E.cur_line,
                 "parts": [("base", [], P(z3.IntVal(0))), ("step", [n >= 0, P(n)], P(n + 1))],
                 "stmt": z3.ForAll([n], z3.Implies(n >= 0, P(n)), patterns=[f(n)]), "hints": []},
                # with a false first element: S(n) <= n-1, and S(n) == n-1  <=>  all of 1..n-1 true
                {"name": "asum.count_tail@%s" % E.cur_line,
                 "parts": [("base", [], Q(z3.IntVal(1))), ("step", [n >= 1, Q(n)], Q(n + 1))],
                 "stmt": z3.ForAll([n], z3.Implies(n >= 1, Q(n)), patterns=[f(n)]), "hints": []}]}
        else:
            E.spec_inst[key] = {"f": f, "name": "asum", "axioms": ax, "env": {}, "lemmas": []}
    f, _ = E.sum_inst[key]
    return f(toz(arr.shape[0]))


def get_arg(node, pos, name, default=None):
    if len(node.args) > pos:
        return node.args[pos]
    for kw in node.keywords:
        if kw.arg == name:
            return kw.value
    return default


def alloc(E, st, shape, elem, fill):
    if not isinstance(shape, tuple):
        shape = (shape,)
    shp = []
    for s in shape:
        s = to_int_strict(num_of_bool(s))
        E.emit("alloc@%s" % E.cur_line, st, s >= 0, "alloc")
        shp.append(s)
    sort = {"real": R, "int": I, "bool": B}[elem]
    d = toz(fill)
    if elem == "real":
        d = to_real(fill)
    for _ in shp:
        d = z3.K(I, d)
    rid = next(E.ids)
    st.heap[rid] = Arr(d, shp, elem)
    return Ref(rid)


NP_EXT = {}        # "np.name" / "builtin.name" -> handler(E, node, st): extension point (see docs/CONTRACT_GUIDE.md)
METHOD_EXT = {}    # array method name -> handler(E, base_value, arr, node, st)


def np_call(E: Engine, path, node, st):
    args = node.args
    if path in NP_EXT:
        return NP_EXT[path](E, node, st)
    if path == "builtin.type" and len(args) == 1:
        from .engine import TypeOf
        v = E.ev(args[0], st)
        if isinstance(v, (Ref, Arr)):
            return TypeOf("ndarray")
        if isinstance(v, tuple):
            return TypeOf("tuple")
        if v is None:
            return TypeOf("NoneType")
        return TypeOf({"int": "int", "real": "float", "bool": "bool"}.get(sort_kind(v), "object"))
    if path == "builtin.int":
        return trunc(E.ev(args[0], st))
    if path == "builtin.float":
        v = E.ev(args[0], st)
        if not is_z3(v):
            return Fraction(num_of_bool(v))
        return to_real(v)
    if path == "builtin.bool":
        return E.truth(E.ev(args[0], st))
    if path in ("builtin.abs", "np.abs", "np.absolute", "np.fabs"):
        v = num_of_bool(E.ev(args[0], st))
        if isinstance(v, Cplx):
            E.math_used.add("sqrt")
            return F_SQRT(v.re * v.re + v.im * v.im)
        if not is_z3(v):
            return abs(v)
        return z3.If(v >= 0, v, -v)
    if path == "builtin.len":
        v = E.ev(args[0], st)
        if isinstance(v, tuple):
            return len(v)
        return E.deref(v, st).shape[0]
    if path in ("builtin.min", "builtin.max", "np.min", "np.max", "np.minimum", "np.maximum"):
        vals = [E.ev(a, st) for a in args]
        if len(vals) == 1 and isinstance(vals[0], tuple):
            vals = list(vals[0])
        if len(vals) < 2 or any(isinstance(v, (Ref, Arr)) for v in vals):
            raise OutsideSubset("min/max of array")
        r = num_of_bool(vals[0])
        lt = path.endswith("min") or path.endswith("minimum")
        for v in vals[1:]:
            v = num_of_bool(v)
            c = E.compare(ast.LtE() if lt else ast.GtE(), r, v)
            r = (r if c else v) if isinstance(c, bool) else E.ite(c, r, v)
        return r
    if path in ("np.zeros", "np.ones", "np.full", "np.empty"):
        shape = E.ev(get_arg(node, 0, "shape"), st)
        if path == "np.full":
            fill = E.ev(get_arg(node, 1, "fill_value"), st)
            k = sort_kind(fill)
            if k is None:
                raise OutsideSubset("np.full fill")
            return alloc(E, st, shape, k, fill)
        if path == "np.empty":
            raise OutsideSubset("np.empty")
        return alloc(E, st, shape, "real", 0 if path == "np.zeros" else 1)
    if path in ("np.sqrt", "np.exp", "np.log", "np.cos", "np.sin", "np.radians"):
        v = E.ev(args[0], st)
        nm = path[3:]
        if isinstance(v, (Ref, Arr)):
            raise OutsideSubset(path + " of array")
        if nm == "radians":
            # exact linear map; pi is an uninterpreted positive constant
            return to_real(v) * PI / 180
        E.math_used.add(nm)
        return UF_MATH[nm](to_real(v))
    if path == "np.arctan2":
        E.math_used.add("arctan2")
        return UF_MATH["arctan2"](to_real(E.ev(args[0], st)), to_real(E.ev(args[1], st)))
    if path == "np.pi":
        return PI
    if path == "np.square":
        v = E.ev(args[0], st)
        return E.binop(ast.Mult(), v, v, st)
    if path == "np.sum":
        v = E.ev(args[0], st)
        return np_sum(E, E.deref(v, st), st)
    if path == "np.isnan":
        E.ev(args[0], st)
        return False            # R1: reals, no NaN
    if path in ("np.array", "np.asarray", "np.copy"):
        v = E.ev(args[0], st)
        if isinstance(v, (Ref, Arr)):
            a = E.deref(v, st)
            rid = next(E.ids); st.heap[rid] = Arr(a.data, a.shape, a.elem)
            return Ref(rid)
        raise OutsideSubset("np.array of non-array")
    if path == "np.invert":
        v = E.ev(args[0], st)
        a = E.deref(v, st)
        if a.elem != "bool":
            raise OutsideSubset("invert non-bool")
        idx = [E.fresh("i", I) for _ in a.shape]
        out = Arr(E.fresh("inv", arr_sort("bool", a.rank)), a.shape, "bool")
        st.pc.append(z3.ForAll(idx, E.select(out, idx) == z3.Not(E.select(a, idx))))
        rid = next(E.ids); st.heap[rid] = out
        return Ref(rid)
    if path == "builtin.complex":
        re = to_real(E.ev(args[0], st)); im = to_real(E.ev(args[1], st))
        return Cplx(re, im)
    raise OutsideSubset("call %s at line %s" % (path, getattr(node, "lineno", "?")))


PI = z3.Real("pi")


def bind_args(fn: ast.FunctionDef, node: ast.Call, E: Engine, st, skip_self=False):
    params = [a.arg for a in fn.args.args]
    if skip_self and params and params[0] in ("self", "cls"):
        params = params[1:]
    defaults = {}
    dn = fn.args.defaults
    all_params = [a.arg for a in fn.args.args]
    for p, d in zip(all_params[len(all_params) - len(dn):], dn):
        defaults[p] = d
    bound = {}
    for p, a in zip(params, node.args):
        bound[p] = E.ev(a, st)
    if len(node.args) > len(params):
        raise OutsideSubset("too many positional args")
    for kw in node.keywords:
        if kw.arg is None:
            raise OutsideSubset("**kwargs")
        if kw.arg not in params:
            raise ContractStale("unknown keyword %s" % kw.arg)
        bound[kw.arg] = E.ev(kw.value, st)
    for p in params:
        if p not in bound:
            if p in defaults:
                bound[p] = E.ev(defaults[p], State({}, {}, []))
            else:
                raise OutsideSubset("missing argument %s" % p)
    return bound


def coerce_to_type(E, v, ty, st, what):
    k = ty[0]
    if k == "real":
        return to_real(num_of_bool(v)) if is_z3(v) else (Fraction(num_of_bool(v)) if v is not None else v)
    if k == "int":
        if sort_kind(v) == "real":
            raise OutsideSubset("real passed for int parameter " + what)
        return num_of_bool(v)
    if k == "tuple":
        if isinstance(v, (Ref, Arr)):
            a = E.deref(v, st)
            if a.rank == 1:
                # array used where the contract expects a tuple of known length
                E.emit("tuplelen:%s@%s" % (what, E.cur_line), st, toz(a.shape[0]) == len(ty[1]), "index")
                v = tuple(z3.Select(a.data, i) for i in range(len(ty[1])))
        if not isinstance(v, tuple) or len(v) != len(ty[1]):
            raise OutsideSubset("tuple arity for " + what)
        return tuple(coerce_to_type(E, x, t, st, what) for x, t in zip(v, ty[1]))
    if k == "arr":
        a = E.deref(v, st)
        if a.rank != ty[2]:
            raise OutsideSubset("rank mismatch for %s: %d vs %d" % (what, a.rank, ty[2]))
        if a.elem != ty[1]:
            if a.elem == "int" and ty[1] == "real":
                return astype_real(E, a, st)
            raise OutsideSubset("element type mismatch for %s: %s vs %s" % (what, a.elem, ty[1]))
        return v
    return v


def contracts_for(key):
    """the contract of a function, or its variants (keys "mod:qualname#variant")"""
    out = [c for k, c in CONTRACTS.items() if k == key or k.startswith(key + "#")]
    return out


def repo_call(E: Engine, key, node, st, self_value=None):
    key = source.resolve_export(key)
    is_ctor = key.endswith(".__init__")
    cs = contracts_for(key)
    try:
        mi, fn = source.function(key)
    except source.SourceError as e:
        raise OutsideSubset(str(e))
    if not cs:
        if is_ctor:
            raise OutsideSubset("constructor %s has no contract" % key)
        return inline_call(E, key, mi, fn, node, st, self_value)
    bound = bind_args(fn, node, E, st, skip_self=(is_ctor or self_value is not None))
    if self_value is not None:
        bound["self"] = self_value
    if len(cs) == 1:
        c = cs[0]
    else:
        # variants are told apart by which optional arguments are None
        def fits(c):
            for p, t in c.types.items():
                if p in bound and ((bound[p] is None) != (parse_type(t)[0] == "none")):
                    return False
            return True
        cands = [c for c in cs if fits(c)]
        if len(cands) != 1:
            raise OutsideSubset("cannot select a contract variant for %s" % key)
        c = cands[0]
    return apply_contract(E, c, bound, st, "%s@%s" % (c.qualname, E.cur_line))


def apply_contract(E: Engine, c, bound, st, tag):
    E.callees.append(c.key)
    if c.trusted:
        E.trusted_used.append(c.key)
    env = {}
    for p, v in bound.items():
        if p in c.types:
            env[p] = coerce_to_type(E, v, parse_type(c.types[p]), st, p)
        else:
            env[p] = v
    pre_heap = dict(st.heap)
    scope = State(env, st.heap, st.pc)
    saved_entry = E.entry
    E.spec_mode += 1
    try:
        for k, e in c.let.items():
            env[k] = E.ev(ast.parse(e, mode="eval").body, scope)
        for i, r in enumerate(c.requires):
            g = toz(E.truth(E.ev(ast.parse(r, mode="eval").body, scope)))
            E.obl.append(_ob("call-pre:%s#%d" % (tag, i), st, g, E.cur_line))
        # exceptional outcomes
        for exn, cond in c.raises.items():
            cz = toz(E.truth(E.ev(ast.parse(cond, mode="eval").body, scope)))
            ex = st.copy(); ex.pc.append(cz)
            E.exits.append(Exit("raise", ex, None, exc=exn, line=E.cur_line))
            st.pc.append(z3.Not(cz))
        # havoc the frame
        for m in c.modifies:
            v = env[m]
            if isinstance(v, Ref):
                a = st.heap[v.id]
                st.heap[v.id] = Arr(E.fresh(m + "'", arr_sort(a.elem, a.rank)), a.shape, a.elem)
        # result
        res = None
        if getattr(c, "ctor_result", None):
            res = env[c.ctor_result]
        elif c.result_alias:
            res = env[c.result_alias]
        elif c.returns:
            res = E.fresh_of_type(parse_type(c.returns), "r." + c.qualname.split(".")[-1], st)
        env["result"] = res
        E.entry = State(env, pre_heap, [])
        for e in c.ensures:
            st.pc.append(toz(E.truth(E.ev(ast.parse(e, mode="eval").body, scope))))
    finally:
        E.spec_mode -= 1
        E.entry = saved_entry
    return res


def _ob(name, st, goal, line):
    from .engine import Obligation
    return Obligation(name, list(st.pc), goal, line, "call-pre")


def inline_call(E: Engine, key, mi, fn, node, st, self_value=None):
    """uncontracted, loop-free repo helper: inline its body (depth <= 2)"""
    if E.inline_depth >= 3:
        raise OutsideSubset("inline depth at " + key)
    if source.loops_preorder(fn):
        raise OutsideSubset("callee %s has loops and no contract" % key)
    bound = bind_args(fn, node, E, st, skip_self=self_value is not None)
    if self_value is not None:
        bound["self"] = self_value
    sub = State(bound, st.heap, st.pc)
    saved = (E.mi, E.exits, E.cur_line)
    E.mi, E.exits = mi, []
    E.inline_depth += 1
    try:
        ends = E.exec_block(source.body_without_docstring(fn), sub)
        exits = E.exits + [Exit("return", e, None) for e in ends]
    finally:
        E.mi, E.exits, E.cur_line = saved[0], saved[1], saved[2]
        E.inline_depth -= 1
    E.callees.append(key + " (inlined)")
    rets = [x for x in exits if x.kind == "return"]
    for x in exits:
        if x.kind == "raise":
            E.exits.append(x)
    if not rets:
        raise OutsideSubset("inlined callee never returns")
    if len(rets) == 1:
        x = rets[0]
        st.pc[:] = x.st.pc
        st.heap.clear(); st.heap.update(x.st.heap)
        return x.value
    # several returns: they partition the path space; merge values by their path conditions
    base = len(st.pc)
    val = rets[-1].value
    conds = []
    for x in rets:
        conds.append(z3.And(x.st.pc[base:]) if len(x.st.pc) > base else z3.BoolVal(True))
    for x, cnd in list(zip(rets, conds))[-2::-1]:
        val = E.ite(cnd, x.value, val)
    for x in rets:
        if any(not (x.st.heap[h].data.eq(st.heap[h].data)) for h in st.heap if h in x.st.heap):
            raise OutsideSubset("inlined callee with several returns writes arrays")
    st.pc.append(z3.Or(conds))
    return val


def _load_ext():
    import importlib, pkgutil, os
    root = os.path.join(os.path.dirname(os.path.abspath(__file__)), "ext")
    if os.path.isdir(root):
        for m in sorted(pkgutil.iter_modules([root])):
            importlib.import_module("pyvc.ext." + m.name)


_load_ext()
