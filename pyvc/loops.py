"""Loop cutting at user-supplied inductive invariants (engine A)."""
from __future__ import annotations
import ast
from fractions import Fraction
import z3

from .engine import (Engine, State, Ref, Arr, Maybe, Poison, LoopCtl, OutsideSubset, ContractStale, I, R, B,
                     toz, to_int_strict, sort_kind, is_z3, arr_sort, _nm, Cplx)
from .contract import CONTRACTS
from . import source


def assigned_names(stmts):
    names, stores, calls = set(), set(), []

    def tgt(t):
        if isinstance(t, ast.Name):
            names.add(t.id)
        elif isinstance(t, (ast.Tuple, ast.List)):
            for e in t.elts:
                tgt(e)
        elif isinstance(t, ast.Subscript):
            b = t.value
            while isinstance(b, ast.Subscript):
                b = b.value
            if isinstance(b, ast.Name):
                stores.add(b.id)
            else:
                stores.add(None)
        elif isinstance(t, ast.Attribute):
            stores.add(None)

    for s in stmts:
        for n in ast.walk(s):
            if isinstance(n, ast.Assign):
                for t in n.targets:
                    tgt(t)
            elif isinstance(n, (ast.AugAssign, ast.AnnAssign)):
                tgt(n.target)
                if isinstance(n, ast.AugAssign) and isinstance(n.target, ast.Name):
                    stores.add(n.target.id)       # a *= b on an array name is an in-place write
            elif isinstance(n, ast.For):
                tgt(n.target)
            elif isinstance(n, ast.Call):
                calls.append(n)
            elif isinstance(n, (ast.With, ast.NamedExpr)):
                raise OutsideSubset("with/walrus in loop")
    return names, stores, calls


def havoc_value(E: Engine, name, v, st, declared=None):
    if declared is not None:
        from .engine import parse_type
        return E.fresh_of_type(parse_type(declared), name, st)
    if isinstance(v, Maybe):
        return Maybe(v.cond, havoc_value(E, name, v.value, st))
    if isinstance(v, bool):
        return E.fresh(name, B)
    if isinstance(v, int):
        return E.fresh(name, I)
    if isinstance(v, Fraction):
        return E.fresh(name, R)
    if is_z3(v):
        return E.fresh(name, v.sort())
    if isinstance(v, tuple):
        return tuple(havoc_value(E, "%s.%d" % (name, i), x, st) for i, x in enumerate(v))
    if isinstance(v, Cplx):
        return Cplx(E.fresh(name + ".re", R), E.fresh(name + ".im", R))
    if isinstance(v, (Ref, Arr)):
        return Poison("array variable %s is rebound inside a loop" % name)
    if v is None:
        return Poison("None-initialised variable %s assigned in loop" % name)
    return Poison("cannot havoc %s" % name)


def kind_of(v):
    if isinstance(v, Maybe):
        return kind_of(v.value)
    if isinstance(v, tuple):
        return tuple(kind_of(x) for x in v)
    if isinstance(v, (Ref, Arr)):
        return "arr"
    return sort_kind(v)


class Iter:
    """normal form of a for-loop: counter k in [0, n), targets as a function of k"""

    def __init__(self, E: Engine, s: ast.For, st: State):
        self.E, self.s = E, s
        it = s.iter
        self.enum = False
        if isinstance(it, ast.Call) and isinstance(it.func, ast.Name) and it.func.id == "enumerate":
            self.enum = True
            it = it.args[0]
        self.lo = None
        self.arr = None
        if isinstance(it, ast.Call) and isinstance(it.func, ast.Name) and it.func.id == "range":
            a = [E.ev(x, st) for x in it.args]
            if len(a) == 1:
                lo, hi = 0, a[0]
            elif len(a) == 2:
                lo, hi = a
            elif len(a) == 3 and a[2] == 1:
                lo, hi = a[0], a[1]
            else:
                raise OutsideSubset("range step")
            self.lo, self.hi = to_int_strict(lo), to_int_strict(hi)
            self.n = z3.simplify(z3.If(self.hi - self.lo > 0, self.hi - self.lo, z3.IntVal(0)))
        else:
            v = E.ev(it, st)
            if isinstance(v, tuple):
                raise OutsideSubset("for over tuple")
            self.arr = E.deref(v, st)
            self.arr = Arr(self.arr.data, self.arr.shape, self.arr.elem)     # iteration snapshot
            self.n = toz(self.arr.shape[0])

    def item(self, k):
        if self.lo is not None:
            if z3.is_int_value(self.lo) and self.lo.as_long() == 0:
                return k
            return self.lo + k
        sub = z3.Select(self.arr.data, k)
        if self.arr.rank == 1:
            return sub
        return Arr(sub, self.arr.shape[1:], self.arr.elem)

    def bind(self, st: State, k):
        v = self.item(k)
        if self.enum:
            v = (k, v)
        self.E.assign(self.s.target, v, st)

    def target_names(self):
        out = []

        def w(t):
            if isinstance(t, ast.Name):
                out.append(t.id)
            else:
                for e in t.elts:
                    w(e)
        w(self.s.target)
        return out


def write_set(E: Engine, body, st: State):
    names, stores, calls = assigned_names(body)
    if None in stores:
        raise OutsideSubset("store through a non-name base in loop")
    heap_ids = set()
    for nm in stores:
        v = st.env.get(nm)
        if isinstance(v, Maybe):
            v = v.value
        if isinstance(v, Ref):
            heap_ids.add(v.id)
    # calls to contracted functions that modify an argument
    for cnode in calls:
        f = cnode.func
        key = None
        try:
            fv = E.ev(f, State(dict(st.env), st.heap, list(st.pc)))
            key = getattr(fv, "key", None)
        except Exception:
            key = None
        c = CONTRACTS.get(key) if key else None
        if c is not None and c.modifies:
            try:
                mi, fn = source.function(key)
            except source.SourceError:
                continue
            params = [a.arg for a in fn.args.args]
            for m in c.modifies:
                argn = None
                if m in params and params.index(m) < len(cnode.args):
                    argn = cnode.args[params.index(m)]
                for kw in cnode.keywords:
                    if kw.arg == m:
                        argn = kw.value
                if isinstance(argn, ast.Name):
                    v = st.env.get(argn.id)
                    if isinstance(v, Ref):
                        heap_ids.add(v.id)
                elif argn is not None:
                    raise OutsideSubset("modified argument is not a name")
    return names, heap_ids


def loop_spec(E: Engine, s):
    ordinal = E.loops.index(s)
    sp = E.c.loops.get(ordinal)
    if sp is None:
        raise ContractStale("loop #%d (line %d) has no invariant in the contract" % (ordinal, s.lineno))
    return ordinal, sp


def eval_invs(E: Engine, sp, st: State):
    out = []
    for i, inv in enumerate(sp.get("inv", [])):
        try:
            out.append((i, toz(E.truth(E.evs(inv, st)))))
        except OutsideSubset as e:
            raise ContractStale("invariant %r: %s" % (inv, e))
    return out


def do_for(E: Engine, s: ast.For, st: State):
    if s.orelse:
        raise OutsideSubset("for-else")
    ordinal, sp = loop_spec(E, s)
    L = "L%d" % ordinal
    it = Iter(E, s, st)
    n = it.n
    tnames = it.target_names()
    # ---- init
    s0 = st.copy()
    it.bind(s0, z3.IntVal(0))
    for i, g in eval_invs(E, sp, s0):
        E.emit("inv-init:%s#%d" % (L, i), st, g, "inv-init")
    # ---- havoc
    names, heap_ids = write_set(E, s.body, st)
    names -= set(tnames)
    head = st.copy()
    declared = sp.get("types", {})
    for nm in sorted(names):
        if nm in head.env:
            head.env[nm] = havoc_value(E, nm, head.env[nm], head, declared.get(nm))
        elif nm in declared:
            head.env[nm] = havoc_value(E, nm, None, head, declared[nm])
    for hid in sorted(heap_ids):
        a = head.heap[hid]
        head.heap[hid] = Arr(E.fresh("h%d" % hid, arr_sort(a.elem, a.rank)), a.shape, a.elem)
    k = E.fresh("k" + L, I)
    # ---- body
    b = head.copy()
    b.pc.append(z3.And(k >= 0, k < n))
    it.bind(b, k)
    for i, g in eval_invs(E, sp, b):
        b.pc.append(g)
    head_kinds = {nm: kind_of(b.env[nm]) for nm in names if nm in b.env and not isinstance(b.env[nm], Poison)}
    ctl = LoopCtl()
    E.loop_stack.append(ctl)
    E.canaries.append(("canary:%s-body" % L, list(b.pc)))
    try:
        ends = exec_body_with_asserts(E, s.body, b, sp, L)
    finally:
        E.loop_stack.pop()
    for e in ends + ctl.continues:
        for nm, kd in head_kinds.items():
            v = e.env.get(nm)
            if v is not None and not isinstance(v, Poison) and kind_of(v) != kd:
                raise OutsideSubset("type of %s changes inside loop %s (%s -> %s); declare loops[%d]['types']"
                                    % (nm, L, kd, kind_of(v), ordinal))
        nx = e.copy()
        it.bind(nx, k + 1)
        for i, g in eval_invs(E, sp, nx):
            E.obl.append(_ob(E, "inv-pres:%s#%d" % (L, i), e, g))
    # ---- after
    a = head.copy()
    virt = a.copy()
    it.bind(virt, n)
    for i, g in eval_invs(E, sp, virt):
        a.pc.append(g)
    last = a.copy()
    it.bind(last, n - 1)
    for nm in tnames:
        prev = st.env.get(nm)
        newv = last.env[nm]
        if prev is None or isinstance(prev, (Poison,)):
            a.env[nm] = Maybe(n > 0, newv)
        else:
            try:
                pv = prev.value if isinstance(prev, Maybe) else prev
                merged = E.ite(n > 0, newv, pv)
                a.env[nm] = Maybe(z3.Or(n > 0, prev.cond), merged) if isinstance(prev, Maybe) else merged
            except OutsideSubset:
                a.env[nm] = Maybe(n > 0, newv)
    for nm in names:
        if nm not in st.env and nm not in declared:
            a.env[nm] = Poison("%s is local to the body of loop %s" % (nm, L))
    out = [a]
    for br in ctl.breaks:
        out.append(br)
    return out


def exec_body_with_asserts(E: Engine, body, st, sp, L):
    """ghost `assert`s (prove, then assume) placed before body statement i: sp["assert_at"] = {i: [exprs]}"""
    hooks = sp.get("assert_at") or {}
    if not hooks:
        return E.exec_block(body, st)
    states = [st]
    for i in range(len(body) + 1):
        for j, expr in enumerate(hooks.get(i, [])):
            for stx in states:
                try:
                    g = toz(E.truth(E.evs(expr, stx)))
                except OutsideSubset as e:
                    raise ContractStale("assert %r: %s" % (expr, e))
                E.obl.append(_ob(E, "assert:%s@%d#%d" % (L, i, j), stx, g))
                stx.pc.append(g)
        if i < len(body):
            states = E.exec_block([body[i]], states)
            if not states:
                break
    return states


def do_while(E: Engine, s: ast.While, st: State):
    if s.orelse:
        raise OutsideSubset("while-else")
    ordinal, sp = loop_spec(E, s)
    L = "L%d" % ordinal
    for i, g in eval_invs(E, sp, st):
        E.emit("inv-init:%s#%d" % (L, i), st, g, "inv-init")
    names, heap_ids = write_set(E, s.body, st)
    head = st.copy()
    declared = sp.get("types", {})
    for nm in sorted(names):
        if nm in head.env:
            head.env[nm] = havoc_value(E, nm, head.env[nm], head, declared.get(nm))
    for hid in sorted(heap_ids):
        a = head.heap[hid]
        head.heap[hid] = Arr(E.fresh("h%d" % hid, arr_sort(a.elem, a.rank)), a.shape, a.elem)
    for i, g in eval_invs(E, sp, head):
        head.pc.append(g)
    b = head.copy()
    c = E.truth(E.ev(s.test, b))
    b.pc.append(toz(c))
    ctl = LoopCtl()
    E.loop_stack.append(ctl)
    try:
        ends = E.exec_block(s.body, b)
    finally:
        E.loop_stack.pop()
    for e in ends + ctl.continues:
        for i, g in eval_invs(E, sp, e):
            E.obl.append(_ob(E, "inv-pres:%s#%d" % (L, i), e, g))
    a = head.copy()
    c2 = E.truth(E.ev(s.test, a))
    a.pc.append(z3.Not(toz(c2)))
    return [a] + ctl.breaks


def _ob(E, name, st, goal):
    from .engine import Obligation
    return Obligation(name, list(st.pc), goal, E.cur_line, name.split(":")[0])
