"""Sidecar contract registry.

A contract is keyed by "dotted.module:qualname" of a function in /repo.  All expressions are
strings in a Python-expression DSL that has two interpreters:
  * pyvc.engine (symbolic, z3)  -- the deductive reading;
  * pyvc.rtc    (concrete, numpy) -- the run-time reading used for replay / bounded search.

DSL: python arithmetic/comparison/boolean operators, `x if c else y`, indexing a[i], a[i,j],
a.shape[k], len(a), `forall(lo, hi, lambda i: P)`, `exists(lo, hi, lambda i: P)`,
`implies(a, b)`, `iff(a, b)`, `old(a)` (entry contents of a mutable array), `result`,
`sumto(n, lambda k: term)` (= sum_{k<n} term), spec functions registered with `spec_fn`.
"""
from __future__ import annotations
import dataclasses, importlib, pkgutil, os, sys
from typing import Any, Callable, Dict, List, Optional

CONTRACTS: Dict[str, "Contract"] = {}
SPECS: Dict[str, "SpecFn"] = {}
MACROS: Dict[str, "Macro"] = {}


@dataclasses.dataclass
class Contract:
    key: str                      # "autoarray.mask.mask_2d_util:total_pixels_2d_from"
    props: List[str]              # property ids this contract carries
    types: Dict[str, str]         # param -> type string ("int","real","bool","(int,int)","real[2]",...)
    returns: Optional[str] = None # type string of result
    let: Dict[str, str] = dataclasses.field(default_factory=dict)   # ghost abbreviations over entry state
    requires: List[str] = dataclasses.field(default_factory=list)
    ensures: List[str] = dataclasses.field(default_factory=list)
    modifies: List[str] = dataclasses.field(default_factory=list)   # params whose contents may change
    raises: Dict[str, str] = dataclasses.field(default_factory=dict) # ExcName -> condition (iff)
    loops: Dict[int, Dict[str, Any]] = dataclasses.field(default_factory=dict)  # ordinal -> {inv:[...]}
    defaults: Dict[str, str] = dataclasses.field(default_factory=dict)  # documentation only
    result_alias: Optional[str] = None   # name of param the result aliases (else fresh)
    uses_lemmas: List[str] = dataclasses.field(default_factory=list)
    hints: List[str] = dataclasses.field(default_factory=list)      # ground terms made available to matching
    uses_math: List[str] = dataclasses.field(default_factory=list)  # opt-in axioms for uninterpreted maths: "sqrt", "exp"
    reveal: List[str] = dataclasses.field(default_factory=list)     # opaque macros whose definition this proof may unfold
    objects: Dict[int, str] = dataclasses.field(default_factory=dict)   # tuple arity -> "module:Class" for tuple-modelled objects
    ctor_result: Optional[str] = None    # constructor of a tuple-modelled object: the parameter the new object IS
    attrs: Dict[str, str] = dataclasses.field(default_factory=dict)  # "param.attr" -> DSL value: ASSUMED facts about an array-like
    #   object parameter (e.g. a Mask2D read as its bool array: pixels_in_mask == total(mask)); trusted in the proof, checked at run time
    rt_wrap: Optional[Callable] = None   # engine C: kwargs (JSON-able) -> kwargs for the real function (e.g. ndarray -> aa.Mask2D)
    ghost_at: Dict[int, list] = dataclasses.field(default_factory=dict)  # ghost asserts / inductive lemmas before top-level statement i
    note: str = ""
    trusted: bool = False         # contract assumed, body not verified (external / out of subset)
    mode: str = "proof"           # "proof" (engine A) or "bounded" (engine C only; never counted as proved)
    cls: Optional[str] = None     # for methods: class name (self.* treated as parameters)
    sentence: Dict[str, str] = dataclasses.field(default_factory=dict)  # ensures -> property sentence
    timeout_ms: int = 20000
    known: List[dict] = dataclasses.field(default_factory=list)  # known-finding splits: {"id","pred","ensures_idx"}
    gen: Optional[Callable] = None          # engine C: gen(rng, tier) -> iterator of kwargs dicts
    nontrivial: Optional[Callable] = None   # engine C: which generated inputs count as non-trivial
    gen_large: Optional[Callable] = None    # engine C escalation: large inputs, used only when engine A could not decide

    @property
    def module(self):
        return self.key.split(":")[0]

    @property
    def qualname(self):
        return self.key.split(":")[1]


@dataclasses.dataclass
class SpecFn:
    name: str
    params: List[tuple]           # [(name, type)] ; array-typed params are *instance* params
    ret: str
    let: Dict[str, str]
    axioms: List[str]
    lemmas: List[dict]            # {name, stmt, induct, lo, hi(optional), using:[lemma names], hints:[terms]}
    py: Callable                  # executable definition (engine C, axiom self-test)
    doc: str = ""


@dataclasses.dataclass
class Macro:
    name: str
    params: List[str]
    body: str
    py: Optional[Callable] = None
    opaque: Optional[tuple] = None      # (["real", ...], "real"): kept as an uninterpreted symbol unless revealed


COROLLARIES: Dict[str, "Corollary"] = {}


@dataclasses.dataclass
class Corollary:
    """a lemma over CONTRACTS only (no code): fresh variables, assumed facts, a sequence of contract
    applications (each checked against the callee's requires), and a conclusion."""
    name: str
    props: List[str]
    vars: Dict[str, str]
    requires: List[str]
    calls: List[tuple]            # (result name, contract key, {param: expr})
    ensures: List[str]
    let: Dict[str, str] = dataclasses.field(default_factory=dict)
    sentence: str = ""
    # uniform interface with Contract for the driver
    trusted: bool = False
    mode: str = "proof"
    gen: Optional[Callable] = None
    timeout_ms: int = 20000

    @property
    def key(self):
        return self.name

    @property
    def qualname(self):
        return self.name


def corollary(name, **kw):
    c = Corollary(name=name, **kw)
    COROLLARIES[name] = c
    return c


def contract(key, **kw):
    c = Contract(key=key, **kw)
    if key in CONTRACTS:
        raise ValueError("duplicate contract " + key)
    CONTRACTS[key] = c
    return c


def spec_fn(name, params, ret, axioms, py, let=None, lemmas=None, doc=""):
    s = SpecFn(name, params, ret, let or {}, axioms, lemmas or [], py, doc)
    SPECS[name] = s
    return s


def macro(name, params, body, py=None, opaque=None):
    m = Macro(name, params, body, py, opaque)
    MACROS[name] = m
    return m


_loaded = False
LOAD_ERRORS: Dict[str, str] = {}


def load_errors_for(pid):
    """load errors of sidecar modules that serve property `pid` (modules are named cNN_*.py; others serve all)"""
    out = {}
    for name, err in LOAD_ERRORS.items():
        tag = name.split("_")[0].upper()
        if not (tag.startswith("C") and tag[1:].isdigit()) or tag == pid:
            out[name] = err
    return out


def load_all():
    """import every module under /verif/contracts (they register themselves)."""
    global _loaded
    if _loaded:
        return
    root = os.path.join(os.path.dirname(os.path.dirname(os.path.abspath(__file__))), "contracts")
    if os.path.dirname(root) not in sys.path:
        sys.path.insert(0, os.path.dirname(root))
    import contracts  # noqa
    import traceback
    for m in sorted(pkgutil.iter_modules([root])):
        try:
            importlib.import_module("contracts." + m.name)
        except Exception:
            # a broken sidecar must not take the other properties down; the properties it serves report CHECKER-ERROR
            LOAD_ERRORS[m.name] = traceback.format_exc()
    _loaded = True


def for_property(pid):
    load_all()
    return [c for c in CONTRACTS.values() if pid in c.props] + [c for c in COROLLARIES.values() if pid in c.props]
