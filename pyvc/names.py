"""Rename-robustness: invariants name local variables of the verified function.  `contracts/names.lock.json` records, for
every contracted function on the tree the contracts were written for, the ordered list of its locals and a hash of its
AST with the locals replaced by positional placeholders.  If the current function is alpha-equivalent to the locked
one (same canonical hash) but uses different local names, the contract's invariant / ghost strings are rewritten to the
new names before use.  This is only a way of FINDING the invariants: every obligation is still proved about the
current code, so a wrong guess could never make a proof unsound -- and the mapping is applied only under
alpha-equivalence, so it cannot turn a benign edit into a failed proof either."""
from __future__ import annotations
import ast, copy, hashlib, json, os
from . import source

LOCK = os.path.join(os.path.dirname(os.path.dirname(os.path.abspath(__file__))), "contracts", "names.lock.json")


def ordered_locals(fn: ast.FunctionDef):
    params = {a.arg for a in fn.args.args + fn.args.kwonlyargs}
    out = []

    def add(n):
        if n not in params and n not in out:
            out.append(n)

    def tgt(t):
        if isinstance(t, ast.Name):
            add(t.id)
        elif isinstance(t, (ast.Tuple, ast.List)):
            for e in t.elts:
                tgt(e)

    def walk(stmts):
        for s in stmts:
            if isinstance(s, ast.Assign):
                for t in s.targets:
                    tgt(t)
            elif isinstance(s, (ast.AugAssign, ast.AnnAssign)):
                tgt(s.target)
            elif isinstance(s, ast.For):
                tgt(s.target)
            for f in ("body", "orelse", "finalbody"):
                if hasattr(s, f):
                    walk(getattr(s, f))
            for h in getattr(s, "handlers", []):
                walk(h.body)
    walk(fn.body)
    return out


class _Canon(ast.NodeTransformer):
    """positional placeholders for locals; also normalises two spellings that do not change meaning for the hash:
    `x op= v` ~ `x = x op v` (name and subscript targets) and `range(0, n)` ~ `range(n)`"""

    def __init__(self, mapping, normalise=False):
        self.m = mapping
        self.norm = normalise

    def visit_AugAssign(self, node):
        self.generic_visit(node)
        if not self.norm:
            return node
        load = copy.deepcopy(node.target)
        for n in ast.walk(load):
            if hasattr(n, "ctx"):
                n.ctx = ast.Load()
        return ast.copy_location(ast.Assign(targets=[node.target], value=ast.BinOp(left=load, op=node.op, right=node.value)), node)

    def visit_Call(self, node):
        self.generic_visit(node)
        if (self.norm and isinstance(node.func, ast.Name) and node.func.id == "range" and len(node.args) == 2
                and isinstance(node.args[0], ast.Constant) and node.args[0].value == 0):
            node.args = [node.args[1]]
        return node

    def visit_Name(self, node):
        if node.id in self.m:
            return ast.copy_location(ast.Name(id=self.m[node.id], ctx=node.ctx), node)
        return node


def canonical_hash(fn: ast.FunctionDef):
    locs = ordered_locals(fn)
    m = {n: "_L%d" % i for i, n in enumerate(locs)}
    f2 = _Canon(m, normalise=True).visit(copy.deepcopy(fn))
    body = source.body_without_docstring(f2)
    txt = "\n".join(ast.dump(s, annotate_fields=False, include_attributes=False) for s in body)
    return hashlib.sha256(txt.encode()).hexdigest()[:20], locs


def rename_expr(expr: str, mapping: dict) -> str:
    try:
        t = ast.parse(expr, mode="eval")
    except SyntaxError:
        return expr
    return ast.unparse(_Canon(mapping).visit(t))


_lock = None


def lock():
    global _lock
    if _lock is None:
        _lock = json.load(open(LOCK)) if os.path.exists(LOCK) else {}
    return _lock


def adapt(c, fn):
    """contract with loop / ghost strings renamed to the current local names, or c itself"""
    ent = lock().get(c.key.split("#")[0])
    if not ent:
        return c, None
    h, locs = canonical_hash(fn)
    if locs == ent["locals"]:
        return c, None
    if h != ent["hash"] or len(locs) != len(ent["locals"]):
        return c, None                     # not a pure renaming: leave the contract as it is (it may go stale)
    m = {o: n for o, n in zip(ent["locals"], locs) if o != n}
    c2 = copy.copy(c)
    loops = {}
    for k, sp in c.loops.items():
        sp2 = dict(sp)
        sp2["inv"] = [rename_expr(e, m) for e in sp.get("inv", [])]
        if "assert_at" in sp:
            sp2["assert_at"] = {i: [rename_expr(e, m) for e in es] for i, es in sp["assert_at"].items()}
        if "types" in sp:
            sp2["types"] = {m.get(n, n): t for n, t in sp["types"].items()}
        loops[k] = sp2
    c2.loops = loops
    g2 = {}
    for i, items in (getattr(c, "ghost_at", None) or {}).items():
        out = []
        for it in items:
            if isinstance(it, str):
                out.append(rename_expr(it, m))
            elif "rebind" in it:
                out.append({"rebind": {m.get(n, n): rename_expr(e, m) for n, e in it["rebind"].items()}})
            else:
                it2 = dict(it)
                for f in ("stmt", "lo", "hi"):
                    if f in it2:
                        it2[f] = rename_expr(str(it2[f]), m)
                out.append(it2)
        g2[i] = out
    c2.ghost_at = g2
    return c2, m
